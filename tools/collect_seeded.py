#!/usr/bin/env python3
"""Collect confirmed seeded changes into /verif/seeded/<id>/ (patch.diff, demo.rs, notes.md, meta.json)
from the evaluation results written by tools/seed_eval.sh."""
import json, os, shutil, glob, re, sys
INC = "/tmp/incoming"; RES = "/tmp/seedres"; OUT = "/verif/seeded"
EARLIER = json.load(open("/verif/seeded/earlier_runs.json")) if os.path.exists("/verif/seeded/earlier_runs.json") else {}
os.makedirs(OUT, exist_ok=True)
rows = []
for rf in sorted(glob.glob(RES + "/*.json")):
    r = json.load(open(rf)); name = r["name"]; prop = name.split("-")[0]
    confirmed = r.get("applies") and r["suite_with_change"] == "pass" and r["demo_with_change"] == "fail" and r["demo_without_change"] == "pass"
    src = os.path.join(INC, name)
    d = os.path.join(OUT, name)
    if not confirmed:
        rows.append((name, "NOT CONFIRMED", r)); continue
    os.makedirs(d, exist_ok=True)
    shutil.copy(os.path.join(src, "patch.diff"), os.path.join(d, "patch.diff"))
    shutil.copy(os.path.join(src, "demo.rs"), os.path.join(d, "demo.rs"))
    notes = ""
    if os.path.exists(os.path.join(src, "notes.md")):
        shutil.copy(os.path.join(src, "notes.md"), os.path.join(d, "notes.md"))
        notes = open(os.path.join(src, "notes.md")).read()
    head = open(os.path.join(src, "demo.rs")).read().split("\n")[0:2]
    caught = [c for c, v in r["checks"].items() if v["exit"] == 1]
    missed = [c for c, v in r["checks"].items() if v["exit"] == 0]
    errs = [c for c, v in r["checks"].items() if v["exit"] not in (0, 1)]
    meta = {
        "id": name,
        "breaks_property": prop,
        "written_by": "independent sub-agent given only the property text and a scratch worktree",
        "needs_to_manifest": (re.search(r"(?is)(manifest|trigger|needed)[^\n]*\n(.{0,600})", notes).group(0)[:700] if re.search(r"(?is)(manifest|trigger|needed)", notes) else notes[:700]),
        "confirmed_by_me": {
            "how": "tools/seed_eval.sh in a scratch worktree of /repo HEAD (with the fix: commits): git apply; cargo test --workspace --no-fail-fast --offline; demo with the change; quick checks with VERIF_REPO=<worktree>; git checkout; demo without the change",
            "applies_to_head": True,
            "existing_suite_with_change": r["suite_with_change"],
            "demo_with_change": r["demo_with_change"],
            "demo_without_change": r["demo_without_change"],
            "demo_placement_and_command": " ".join(h.strip("/ ").strip() for h in head)[:300],
        },
        "checks_run": r["checks"],
        "caught_by": caught,
        "not_caught_by": missed,
        "harness_error_in": errs,
        "earlier_runs_before_strengthening": EARLIER.get(name),
    }
    json.dump(meta, open(os.path.join(d, "meta.json"), "w"), indent=1)
    rows.append((name, "caught by " + ",".join(caught) if caught else "MISSED", r))
for n, s, r in rows:
    print(n, s, {k: v["exit"] for k, v in r.get("checks", {}).items()})
