#!/bin/bash
# tools/seed_eval.sh <incoming dir> <out json> [checks...]
# Confirms a seeded change in a scratch worktree of /repo HEAD (compiles, existing suite passes,
# demo fails with it and passes without it), then runs the listed quick checks against the
# scratch copy (VERIF_REPO) and records which of them raise an alarm. Cleans up after itself.
set -u
IN="$1"; OUT="$2"; shift 2
NAME="$(basename "$IN")"
WT="/tmp/seedwt-$NAME"
export CARGO_NET_OFFLINE=true
LANE="${LANE:-lane$PPID}"
export CARGO_TARGET_DIR="/tmp/seedtgt-$LANE"
LOG="/tmp/seedlog-$NAME.txt"; : > "$LOG"
# target directories are shared by the evaluations of one lane (dependencies are built once)
cleanup() { git -C /repo worktree remove --force "$WT" >/dev/null 2>&1; rm -rf "$WT"; git -C /repo worktree prune; }
cleanup
git -C /repo worktree add -q --detach "$WT" HEAD || exit 2
cp /repo/Cargo.lock "$WT/"
cd "$WT"
head -3 "$IN/demo.rs" > /tmp/seedhead-$NAME
CRATE=zkabacus-crypto; grep -q "zkchannels-crypto/tests" /tmp/seedhead-$NAME && CRATE=zkchannels-crypto
FEAT=""; grep -q "features bincode" /tmp/seedhead-$NAME && FEAT="--features bincode"
applies=true; suite=unknown; demo_clean=unknown; demo_mut=unknown
if ! git apply --check "$IN/patch.diff" 2>>"$LOG"; then
  if git apply --3way "$IN/patch.diff" >>"$LOG" 2>&1; then git reset -q; else applies=false; fi
else
  git apply "$IN/patch.diff"
fi
if $applies; then
  # existing suite with the change
  if cargo test --workspace --no-fail-fast --offline >>"$LOG" 2>&1; then suite=pass; else suite=fail; fi
  mkdir -p "$CRATE/tests"; cp "$IN/demo.rs" "$CRATE/tests/seed_demo.rs"
  if cargo test --offline -p "$CRATE" $FEAT --test seed_demo >>"$LOG" 2>&1; then demo_mut=pass; else demo_mut=fail; fi
  # run the checks against the changed copy
  RES="{"
  first=true
  for c in "$@"; do
    out=$(cd ${VERIF_HOME:-/verif} && VERIF_REPO="$WT" VERIF_BUILD_DIR="/tmp/zksim-build-$LANE" CARGO_TARGET_DIR="/tmp/zksim-build-$LANE/target" VERIF_DIR="/tmp/zksim-build-$LANE/vdir-$NAME" ./check "$c" quick 2>&1); rc=$?
    echo "=== check $c rc=$rc" >>"$LOG"; echo "$out" | grep -E "violation:|VIOLATION|HARNESS|zksim:" | cut -c1-600 >>"$LOG"
    cls=$(echo "$out" | grep -E "^  violation:" | sed -E 's/.*class=([^ ]+) site=([^ ]+).*/\1@\2/' | head -4 | tr '\n' ';')
    $first || RES="$RES,"; first=false
    RES="$RES\"$c\":{\"exit\":$rc,\"violations\":\"$cls\"}"
  done
  RES="$RES}"
  # without the change
  git checkout -q -- . ; 
  if cargo test --offline -p "$CRATE" $FEAT --test seed_demo >>"$LOG" 2>&1; then demo_clean=pass; else demo_clean=fail; fi
else
  RES="{}"
fi
cd /
echo "{\"name\":\"$NAME\",\"applies\":$applies,\"suite_with_change\":\"$suite\",\"demo_with_change\":\"$demo_mut\",\"demo_without_change\":\"$demo_clean\",\"checks\":$RES}" > "$OUT"
cat "$OUT"
cleanup
