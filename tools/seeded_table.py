#!/usr/bin/env python3
"""Print the markdown table of seeded changes (from /verif/seeded/*/meta.json) for DESIGN.md."""
import json, glob, os, re
rows = []
for f in sorted(glob.glob("/verif/seeded/*/meta.json")):
    m = json.load(open(f))
    notes = ""
    np = os.path.join(os.path.dirname(f), "notes.md")
    if os.path.exists(np):
        t = open(np).read()
        mm = re.search(r"^#\s*(.*)$", t, re.M)
        notes = mm.group(1) if mm else ""
        notes = re.sub(r"^Mutant \d+\s*[-—(]*\s*(\(?C\d+\)?:?)?\s*", "", notes).strip()
    caught = ", ".join("%s" % c for c in m["caught_by"]) or "**missed**"
    classes = []
    for c in m["caught_by"]:
        v = m["checks_run"][c]["violations"].split(";")[0]
        classes.append("%s: `%s`" % (c, v.split("@")[0]))
    extra = ""
    if m.get("earlier_runs_before_strengthening"):
        extra = " (first run missed; see meta.json)"
    if m.get("harness_error_in"):
        extra += " (exit 2 in %s)" % ",".join(m["harness_error_in"])
    rows.append("| %s | %s | %s | %s%s |" % (m["id"], notes[:110].replace("|", "/"), caught, "; ".join(classes)[:120], extra))
print("| id | change | caught by | first violation class |")
print("|----|--------|-----------|------------------------|")
print("\n".join(rows))
