#!/usr/bin/env python3
"""Regenerate the two generated tables of DESIGN.md (10.5 seeded changes, 10.6 own mutants)."""
import subprocess, re
p = "/verif/DESIGN.md"
s = open(p).read()
def put(s, name, body):
    a = s.index("<!-- %s:begin -->" % name) + len("<!-- %s:begin -->" % name)
    b = s.index("<!-- %s:end -->" % name)
    return s[:a] + "\n" + body.strip() + "\n" + s[b:]
s = put(s, "seeded-table", subprocess.run(["python3", "/verif/tools/seeded_table.py"], capture_output=True, text=True).stdout)
s = put(s, "mutants-table", subprocess.run(["python3", "/verif/tools/mutants_table.py"], capture_output=True, text=True).stdout)
open(p, "w").write(s)
