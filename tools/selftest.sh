#!/bin/bash
# Determinism selftest: every check, a strided sample of its case sequence, executed in separate
# processes with 1, 5 and 16 workers; the batch log hashes (hash over every run's event log, in
# case-index order) must agree. Exit 2 on a mismatch.
cd "$(dirname "$0")/.."
./check build >/dev/null || exit 2
N="${1:-40}"
fail=0
for p in $(./check list); do
  hs=""
  for t in 1 5 16; do
    d=$(mktemp -d /tmp/zk-selftest.XXXXXX)
    VERIF_DIR=$d VERIF_THREADS=$t VERIF_MAX_CASES=$N VERIF_CASE_STRIDE=${STRIDE:-7} VERIF_BUDGET_S=3000 ./sim/target/release/zksim check $p quick >/dev/null 2>&1
    h=$(python3 -c "import json;print(json.load(open('$d/evidence/$p.json'))['coverage']['batch_log_hash'])" 2>/dev/null)
    rm -rf "$d"
    hs="$hs $h"
  done
  set -- $hs
  if [ "$1" = "$2" ] && [ "$2" = "$3" ] && [ -n "$1" ]; then echo "selftest $p: deterministic ($1)"; else echo "selftest $p: MISMATCH ($hs)"; fail=1; fi
done
[ $fail = 0 ] || { echo "HARNESS-ERROR: determinism breach"; exit 2; }
