#!/usr/bin/env python3
"""Print the markdown table of the harness's own sensitivity mutants (mutants/index.json +
mutants/results.jsonl) for DESIGN.md 10.6."""
import json
idx = json.load(open("/verif/mutants/index.json"))
res = {}
for l in open("/verif/mutants/results.jsonl"):
    r = json.loads(l); res[r["name"]] = r
print("| mutant | what it does | expected | observed (exit per check run) | first violation class |")
print("|--------|--------------|----------|-------------------------------|------------------------|")
for m in idx:
    r = res.get(m["name"])
    exp = ", ".join(m.get("expect", [])) or "none (neutral)"
    if not r:
        print("| %s | %s | %s | not run | |" % (m["name"], m.get("why", "")[:100], exp)); continue
    obs = ", ".join("%s=%d" % (k, v["exit"]) for k, v in r["checks"].items())
    if len(r["checks"]) > 6:
        bad = [k for k, v in r["checks"].items() if v["exit"] != 0]
        obs = "all %d checks exit 0" % len(r["checks"]) if not bad else obs
    cls = ""
    for k, v in r["checks"].items():
        if v["exit"] == 1 and v["violations"]:
            cls = "%s: `%s`" % (k, v["violations"].split(";")[0].split("@")[0]); break
    print("| %s | %s | %s | %s | %s |" % (m["name"], m.get("why", "").replace("|", "/")[:110], exp, obs, cls))
