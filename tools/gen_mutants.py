#!/usr/bin/env python3
"""Generate the harness's own sensitivity mutants (/verif/mutants/*.patch): one deliberate
property-breaking edit per verifier conjunct / hashed input / validator, each with the check(s)
expected to report it. Patches are made against /repo HEAD in a scratch worktree."""
import os, subprocess, json, re, sys
WT = "/tmp/genmut-wt"
OUT = "/verif/mutants"
def sh(*a, **k): return subprocess.run(a, capture_output=True, text=True, **k)
sh("git", "-C", "/repo", "worktree", "remove", "--force", WT)
sh("git", "-C", "/repo", "worktree", "add", "-q", "--detach", WT, "HEAD")
index = []
def mutant(name, path, old, new, expect, count=1, why=""):
    full = os.path.join(WT, path)
    s = open(full).read()
    if s.count(old) < 1:
        print("SKIP (pattern not found):", name); return
    s2 = s.replace(old, new, count)
    open(full, "w").write(s2)
    d = sh("git", "-C", WT, "diff").stdout
    open(os.path.join(OUT, name + ".patch"), "w").write(d)
    sh("git", "-C", WT, "checkout", "--", ".")
    index.append({"name": name, "file": path, "expect": expect, "why": why})

P = "zkabacus-crypto/src/proofs.rs"
# --- PayProof::verify conjuncts (the final conjunction)
pay_conj = ["old_pay_token_proof_verifies", "old_revlock_proof_verifies", "customer_balance_proof_verifies", "merchant_balance_proof_verifies",
            "channel_ids_match", "close_tag_matches", "old_revlocks_match", "new_revlocks_match", "pay_token_nonce_matches_expected",
            "new_customer_balances_match", "new_merchant_balances_match", "customer_balance_properly_updated", "merchant_balance_properly_updated"]
for i, c in enumerate(pay_conj):
    if i == 0:
        old = "            %s\n                && " % c; new = "            true\n                && "
    else:
        old = "                && %s" % c; new = "                && true"
    # establish also has channel_ids_match / close_tag_matches: pick the occurrence in the pay conjunction (the last one)
    full = os.path.join(WT, P); s = open(full).read()
    k = s.rfind(old)
    if k < 0: print("SKIP", c); continue
    s2 = s[:k] + new + s[k+len(old):]
    open(full, "w").write(s2)
    d = sh("git", "-C", WT, "diff").stdout
    name = "pay-drop-" + c.replace("_", "-")
    open(os.path.join(OUT, name + ".patch"), "w").write(d)
    sh("git", "-C", WT, "checkout", "--", ".")
    index.append({"name": name, "file": P, "expect": ["C02"], "why": "PayProof::verify conjunct `%s` replaced by true" % c})
# halves of the id equality
mutant("pay-ids-state-close-only", P, "let channel_ids_match = state_response_scalars[0] == close_state_response_scalars[0]\n            && close_state_response_scalars[0] == old_pay_token_response_scalars[0];",
       "let channel_ids_match = state_response_scalars[0] == close_state_response_scalars[0];", ["C02"], why="new channel id no longer tied to the token's")
# --- EstablishProof::verify conjuncts
for c in ["channel_ids_match", "close_tag_matches", "revlocks_match", "customer_balances_match", "merchant_balances_match"]:
    full = os.path.join(WT, P); s = open(full).read()
    if c == "channel_ids_match":
        old = "            channel_ids_match\n                && close_tag_matches\n                && revlocks_match"; new = "            true\n                && close_tag_matches\n                && revlocks_match"
    elif c == "merchant_balances_match":
        old = "                && merchant_balances_match,\n"; new = "                && true,\n"
    else:
        old = "                && %s\n" % c; new = "                && true\n"
    k = s.find(old)
    if k < 0: print("SKIP est", c); continue
    s2 = s[:k] + new + s[k+len(old):]
    open(full, "w").write(s2)
    d = sh("git", "-C", WT, "diff").stdout
    name = "est-drop-" + c.replace("_", "-")
    open(os.path.join(OUT, name + ".patch"), "w").write(d)
    sh("git", "-C", WT, "checkout", "--", ".")
    index.append({"name": name, "file": P, "expect": ["C01"], "why": "EstablishProof::verify conjunct `%s` replaced by true" % c})
mutant("est-cust-balance-close-half-dropped", P, "let customer_balances_match = state_response_scalars[3] == expected_customer_balance\n            && close_state_response_scalars[3] == expected_customer_balance;",
       "let customer_balances_match = state_response_scalars[3] == expected_customer_balance;", ["C01"])
mutant("est-id-state-half-dropped", P, "let channel_ids_match = state_response_scalars[0] == expected_channel_id\n            && close_state_response_scalars[0] == expected_channel_id;",
       "let channel_ids_match = close_state_response_scalars[0] == expected_channel_id;", ["C01"])
# --- hashed inputs removed on both sides (honest runs stay consistent)
# context dropped from the establish challenge on BOTH sides (two cooperating sites)
def both_sides_context():
    full = os.path.join(WT, P); s = open(full).read()
    a = "            // Incorporate transcript context.\n            .with_bytes(&context.as_bytes())\n"
    b = "            // Incorporate transcript context.\n            .with_bytes(context.as_bytes())\n"
    if a not in s or b not in s:
        print("SKIP est-hash-drops-context"); return
    s = s.replace(a, "", 1).replace(b, "", 1)
    open(full, "w").write(s)
    d = sh("git", "-C", WT, "diff").stdout
    open(os.path.join(OUT, "est-hash-drops-context.patch"), "w").write(d)
    sh("git", "-C", WT, "checkout", "--", ".")
    index.append({"name": "est-hash-drops-context", "file": P, "expect": ["C06", "C12"], "why": "context no longer hashed into the establish challenge, prover and verifier alike"})
both_sides_context()
SIG = "zkchannels-crypto/src/proofs/signature.rs"
mutant("sigproof-drop-wellformed", SIG, "valid_signature && valid_commitment_proof && commitment_proof_matches_signature", "valid_commitment_proof && commitment_proof_matches_signature", [], why="reachable only with an identity blinded signature, which the decoder refuses: not observable through zkAbacus (C11, n/a)")
mutant("sigproof-drop-pairing", SIG, "valid_signature && valid_commitment_proof && commitment_proof_matches_signature", "valid_signature && valid_commitment_proof", ["C02"])
mutant("sigproof-drop-schnorr", SIG, "valid_signature && valid_commitment_proof && commitment_proof_matches_signature", "valid_signature && commitment_proof_matches_signature", ["C02"])
mutant("sigproof-hash-drops-blinded-signature", SIG, "        builder.consume(&self.blinded_signature);\n        builder.consume(&self.commitment_proof_builder);", "        builder.consume(&self.commitment_proof_builder);", ["C12"], why="prover side only: the builder no longer hashes the blinded signature, the proof still does - prover and verifier disagree")
RNG = "zkchannels-crypto/src/proofs/range.rs"
mutant("range-drop-digit-verification", RNG, "valid_digits && response_scalar == expected_response_scalar", "response_scalar == expected_response_scalar", ["C02"])
mutant("range-drop-link", RNG, "valid_digits && response_scalar == expected_response_scalar", "valid_digits", ["C02"])
COM = "zkchannels-crypto/src/proofs/commitment.rs"
mutant("commitmentproof-hash-drops-T-both-sides", COM, "        builder.consume(&self.scalar_commitment());\n", "", ["C12", "C01", "C02"], count=2, why="scalar commitment T of every commitment proof no longer hashed, on builder and proof side alike: honest runs stay consistent, T can be chosen after the challenge")
# --- customer
CU = "zkabacus-crypto/src/customer.rs"
mutant("customer-started-close-on-new-state", CU, "            self.old_close_state_signature,\n            self.old_state.close_state(),", "            self.old_close_state_signature,\n            self.new_state.close_state(),", ["C03", "C04"])
mutant("customer-unlock-does-not-verify", CU, "        match unblinded_pay_token.verify(config, &self.state) {\n            // If so, save it and enter the `Ready` state.\n            Verified => Ok(Ready {\n                state: self.state,\n                pay_token: unblinded_pay_token,\n                close_state_signature: self.close_state_signature,\n            }),\n            Failed => Err(self),\n        }\n    }\n\n    /// Extract data used to close the channel.\n    /// This is called as part of zkAbacus.Close.\n    pub fn close(self, rng: &mut impl Rng) -> ClosingMessage {\n        ClosingMessage::new(rng, self.close_state_signature, self.state.close_state())\n    }\n\n    /// Get the [`CustomerBalance`] for this state that will result",
       "        match Verified {\n            // If so, save it and enter the `Ready` state.\n            Verified => Ok(Ready {\n                state: self.state,\n                pay_token: unblinded_pay_token,\n                close_state_signature: self.close_state_signature,\n            }),\n            Failed => Err(self),\n        }\n    }\n\n    /// Extract data used to close the channel.\n    /// This is called as part of zkAbacus.Close.\n    pub fn close(self, rng: &mut impl Rng) -> ClosingMessage {\n        ClosingMessage::new(rng, self.close_state_signature, self.state.close_state())\n    }\n\n    /// Get the [`CustomerBalance`] for this state that will result", ["C03"])
mutant("customer-close-not-randomised", CU, "        close_signature.randomize(&mut *rng);\n", "        let _ = &rng;\n", ["C14"])
# --- merchant / revlock
RL = "zkabacus-crypto/src/revlock.rs"
mutant("revlock-decoder-ignores-lock", RL, "        if unchecked.lock == valid_pair.lock {", "        if true || unchecked.lock == valid_pair.lock {", ["C05", "C15"])
mutant("revlock-opening-ignores-blinding-factor", RL, "                revocation_lock_blinding_factor.0,\n                &Message::from(revocation_pair.lock.to_scalar()),\n            )\n            .into()", "                revocation_lock_blinding_factor.0,\n                &Message::from(revocation_pair.lock.to_scalar()),\n            )\n            .max(true)\n            .into()", ["C05"])
# --- nonce / states / keys
NO = "zkabacus-crypto/src/nonce.rs"
mutant("nonce-generation-no-loop", NO, "        loop {\n            if let Ok(n) = Nonce::try_from(UncheckedNonce(Scalar::random(&mut *rng))) {\n                return n;\n            }\n        }", "        Nonce(Scalar::random(&mut *rng))", ["C18"])
mutant("nonce-decode-accepts-tag", NO, "        if n != CLOSE_SCALAR {", "        if true || n != CLOSE_SCALAR {", ["C18", "C15"])
ST = "zkabacus-crypto/src/states.rs"
mutant("channel-id-drops-customer-account", ST, "        hasher.update(customer_account_info);\n", "", ["C18"])
mutant("state-message-swaps-balances", ST, "            self.customer_balance.to_scalar(),\n            self.merchant_balance.to_scalar(),\n        ])\n    }\n}\n\nimpl CloseState", "            self.merchant_balance.to_scalar(),\n            self.customer_balance.to_scalar(),\n        ])\n    }\n}\n\nimpl CloseState", ["C04"], why="state and close-state layouts disagree: honest establishment with unequal balances is refused")
PS = "zkchannels-crypto/src/pointcheval_sanders.rs"
mutant("keygen-no-nonzero-loop", PS, "        let mut get_nonzero_scalar = || loop {\n            let r = Scalar::random(&mut *rng);\n            if !r.is_zero() {\n                return r;\n            }\n        };", "        let mut get_nonzero_scalar = || Scalar::random(&mut *rng);", ["C19"])
mutant("blind-and-randomize-drops-randomisation", PS, "        blinded_signature.randomize(rng);\n        BlindedSignature(blinded_signature)", "        let _ = &rng;\n        BlindedSignature(blinded_signature)", ["C14"])
mutant("signature-decode-accepts-identity", PS, "        if bool::from(sigma1.is_identity()) {\n            return Err(", "        if false && bool::from(sigma1.is_identity()) {\n            return Err(", ["C15"])
SE = "zkchannels-crypto/src/serde.rs"
mutant("g1-decode-unchecked-subgroup", SE, "            G1Affine::from_compressed(&serde_big_array::BigArray::deserialize(deserializer)?)", "            G1Affine::from_compressed_unchecked(&serde_big_array::BigArray::deserialize(deserializer)?)", ["C15"])
LI = "zkabacus-crypto/src/lib.rs"
mutant("balance-bound-off-by-one", LI, "        if value > i64::MAX as u64 {", "        if value >= i64::MAX as u64 {", ["C17", "C04"])
mutant("try-add-wrapping", ST, "MerchantBalance::try_new(self.into_inner() + rhs.into_inner())", "MerchantBalance::try_new(self.into_inner().wrapping_add(rhs.into_inner()) & (i64::MAX as u64))", ["C17"])
mutant("started-serialises-states-swapped", CU, "pub struct Started {\n    new_state: State,\n    old_state: State,", "pub struct Started {\n    #[serde(rename = \"old_state\")]\n    new_state: State,\n    #[serde(rename = \"new_state\")]\n    old_state: State,", [], why="bincode ignores field names: behaviour-preserving edit, must NOT raise an alarm")
# --- the repaired defects, re-introduced (reverse patch of each `fix:` commit): the check that found it must report it again
def revert(name, subject_prefix, expect, why):
    log = sh("git", "-C", "/repo", "log", "--format=%H %s").stdout.splitlines()
    hit = [l.split(" ", 1)[0] for l in log if l.split(" ", 1)[1].startswith(subject_prefix)]
    if not hit:
        print("SKIP (fix commit not found):", name); return
    d = sh("git", "-C", "/repo", "diff", hit[0], hit[0] + "^").stdout
    open(os.path.join(OUT, name + ".patch"), "w").write(d)
    index.append({"name": name, "file": "(reverse of fix commit)", "expect": expect, "why": why})
revert("revert-fix-D2-array-push", "fix: array element decoder", ["C16"], "D2 re-introduced: [G; N] decoder pushes element N+1 into a full ArrayVec")
revert("revert-fix-D3-vec-prealloc", "fix: Vec element decoder", ["C16"], "D3 re-introduced: Vec<G> decoder pre-allocates the announced length")
revert("revert-fix-D4-balance-range", "fix: balances are range-checked", ["C15"], "D4 re-introduced: balances above 2^63-1 decode")
revert("revert-fix-D1a-establish-scalars", "fix: establish proof challenge", ["C01", "C12"], "D1a re-introduced: revealed establish commitment scalars unhashed")
revert("revert-fix-D1b-pay-scalars", "fix: pay proof challenge", ["C12", "C02"], "D1b re-introduced: revealed pay commitment scalars unhashed")
revert("revert-fix-D5-amount-abs", "fix: PaymentAmount::to_scalar", ["C17"], "D5 re-introduced: abs() overflow on i64::MIN")
# --- more customer-side acceptance checks, completion, context binding, restore
mutant("customer-complete-does-not-verify", CU, "        match close_state_signature.verify(config, &self.state.close_state()) {\n            // If so, save it and enter the `Inactive` state.", "        match Verified {\n            // If so, save it and enter the `Inactive` state.", ["C03"], why="Requested::complete accepts any closing signature")
mutant("customer-lock-does-not-verify", CU, "        match close_state_signature.verify(config, &self.new_state.close_state()) {", "        match Verified {", ["C03"], why="Started::lock accepts any closing signature and reveals the old revocation pair")
mutant("merchant-complete-payment-always-ok", "zkabacus-crypto/src/merchant.rs", "            Failed => Err(self),\n        }\n    }\n}", "            Failed => Ok(BlindedPayToken::sign(rng, self.config, self.blinded_state)),\n        }\n    }\n}", ["C05"], why="pay token issued whatever pair is presented")
mutant("nonce-decode-rejects-short", NO, "        if n != CLOSE_SCALAR {", "        if n != CLOSE_SCALAR && n.to_bytes()[31] >= 4 {", [], why="NEUTRAL (by accident of design): decoding refuses nonces below 2^250, but generation goes through the same validation and re-draws, so stored stages still restore: no check may raise an alarm")
def both_sides_pay_context():
    full = os.path.join(WT, P); s = open(full).read()
    a = "            // integrate context\n            .with_bytes(context.as_bytes())\n"
    if s.count(a) != 2:
        print("SKIP pay-hash-drops-context"); return
    s = s.replace(a, "")
    open(full, "w").write(s)
    d = sh("git", "-C", WT, "diff").stdout
    open(os.path.join(OUT, "pay-hash-drops-context.patch"), "w").write(d)
    sh("git", "-C", WT, "checkout", "--", ".")
    index.append({"name": "pay-hash-drops-context", "file": P, "expect": ["C06", "C12"], "why": "context no longer hashed into the pay challenge, prover and verifier alike"})
both_sides_pay_context()
# --- behaviour-preserving edits: NO check may raise an alarm (exit 0 everywhere)
mutant("neutral-reorder-establish-proof-fields", P, "    // Proof objects.\n    state_proof: SignatureRequestProof<5>,\n    close_state_proof: SignatureRequestProof<5>,\n}\n\nimpl EstablishProof {",
       "    // Proof objects.\n    close_state_proof: SignatureRequestProof<5>,\n    state_proof: SignatureRequestProof<5>,\n}\n\nimpl EstablishProof {", [], why="NEUTRAL: wire layout of EstablishProof changes (fields re-ordered), behaviour does not")
mutant("neutral-reorder-pay-proof-fields", P, "    old_pay_token_proof: SignatureProof<5>,\n    old_revocation_lock_proof: CommitmentProof<G1Projective, 1>,\n    state_proof: SignatureRequestProof<5>,",
       "    old_revocation_lock_proof: CommitmentProof<G1Projective, 1>,\n    state_proof: SignatureRequestProof<5>,\n    old_pay_token_proof: SignatureProof<5>,", [], why="NEUTRAL: wire layout of PayProof changes, behaviour does not")
mutant("neutral-domain-separator-in-challenges", "zkchannels-crypto/src/proofs/challenge.rs", "        Self {\n            hasher: Sha3_256::new(),", "        Self {\n            hasher: Sha3_256::new().chain(b\"zkchannels-v2\"),", [], why="NEUTRAL: every challenge hashes an extra domain separator on both sides")
mutant("neutral-reorder-state-fields", ST, "pub struct State {\n    channel_id: ChannelId,\n    nonce: Nonce,\n    revocation_pair: RevocationPair,", "pub struct State {\n    nonce: Nonce,\n    channel_id: ChannelId,\n    revocation_pair: RevocationPair,", [], why="NEUTRAL: stored customer stages change layout, behaviour does not")
json.dump(index, open(os.path.join(OUT, "index.json"), "w"), indent=1)
sh("git", "-C", "/repo", "worktree", "remove", "--force", WT)
print(len(index), "mutants written")
