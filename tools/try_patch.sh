#!/bin/bash
# tools/try_patch.sh <patch file> <check ids...> — apply a patch to a scratch worktree of /repo HEAD
# and run the listed quick checks against it (no suite / demo confirmation). Cleans up.
P="$(readlink -f "$1")"; shift
N="$(echo "$P" | md5sum | cut -c1-8)"
WT=/tmp/trywt-$N; B=/tmp/zksim-build-try-$N
cd "$(dirname "$0")/.."
git -C /repo worktree remove --force $WT >/dev/null 2>&1; rm -rf $WT
git -C /repo worktree add -q --detach $WT HEAD || exit 2
cp /repo/Cargo.lock $WT/
if ! git -C $WT apply "$P" 2>/dev/null; then
  if ! git -C $WT apply --3way "$P" >/dev/null 2>&1; then echo "patch does not apply"; git -C /repo worktree remove --force $WT; exit 3; fi
fi
for c in "$@"; do
  VERIF_REPO=$WT VERIF_BUILD_DIR=$B CARGO_TARGET_DIR=$B/target VERIF_DIR=$B/vdir ${TIER_ENV:-} ./check $c ${TIER:-quick} 2>&1 | grep -E "^  violation:|^VIOLATION|HARNESS|zksim: property=.*cases=" | cut -c1-330 | head -8
  echo "== $c exit=${PIPESTATUS[0]}"
done
git -C /repo worktree remove --force $WT >/dev/null 2>&1; rm -rf $WT $B; git -C /repo worktree prune
