#!/bin/bash
# tools/run_mutants.sh [name-regex] — apply each /verif/mutants/*.patch to a scratch worktree of
# /repo HEAD, run the quick checks it is expected to trip (all checks with ALL=1), record exits.
cd "$(dirname "$0")/.."
RE="${1:-.}"
RES="${RESULTS:-mutants/results.jsonl}"
for p in mutants/*.patch; do
  name=$(basename $p .patch)
  echo "$name" | grep -Eq "$RE" || continue
  grep -q "\"name\": \"$name\"" $RES 2>/dev/null && [ -z "${FORCE:-}" ] && continue
  WT=/tmp/mutwt-$name; B=/tmp/zksim-build-mut-$name
  git -C /repo worktree remove --force $WT >/dev/null 2>&1; rm -rf $WT
  git -C /repo worktree add -q --detach $WT HEAD || continue
  cp /repo/Cargo.lock $WT/
  if ! git -C $WT apply $OLDPWD/$p 2>/dev/null && ! git -C $WT apply /verif/$p; then echo "{\"name\": \"$name\", \"applies\": false}" >> $RES; git -C /repo worktree remove --force $WT; continue; fi
  if [ -n "${ALL:-}" ]; then checks=$(./check list); else checks=$(python3 -c "
import json
for m in json.load(open('mutants/index.json')):
    if m['name']=='$name': print(' '.join(m['expect']) or 'C03 C04')"); fi
  out="{\"name\": \"$name\", \"applies\": true, \"checks\": {"
  first=1
  for c in $checks; do
    o=$(VERIF_REPO=$WT VERIF_BUILD_DIR=$B CARGO_TARGET_DIR=$B/target VERIF_DIR=$B/vdir ./check $c quick 2>&1); rc=$?
    v=$(echo "$o" | grep -E "^  violation:" | sed -E 's/.*class=([^ ]+) site=([^ ]+).*/\1@\2/' | head -3 | tr '\n' ';' | tr -d '"')
    h=$(echo "$o" | grep -E "HARNESS-ERROR" | head -1 | cut -c1-160 | tr -d '"')
    [ $first = 1 ] || out="$out, "; first=0
    out="$out\"$c\": {\"exit\": $rc, \"violations\": \"$v\", \"harness\": \"$h\"}"
  done
  echo "$out}}" >> $RES
  echo "$out}}" | cut -c1-300
  git -C /repo worktree remove --force $WT >/dev/null 2>&1; rm -rf $WT $B; git -C /repo worktree prune
done
