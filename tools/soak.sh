#!/bin/bash
# False-alarm soak: every quick check on the unchanged tree under several seeds; any non-zero exit is printed.
cd "$(dirname "$0")/.."
./check build >/dev/null || exit 2
bad=0
for seed in "$@"; do
  for p in $(./check list); do
    d=$(mktemp -d /tmp/zk-soak.XXXXXX)
    out=$(VERIF_DIR=$d VERIF_SEED=$seed ./sim/target/release/zksim check $p quick 2>&1); rc=$?
    if [ $rc != 0 ]; then bad=1; echo "SOAK seed=$seed $p exit=$rc"; echo "$out" | grep -E "violation:|HARNESS" | cut -c1-400 | head -5; fi
    rm -rf $d
  done
  echo "soak seed=$seed done"
done
exit $bad
