#!/usr/bin/env python3
"""Generate /verif/MANIFEST.json from the table below (keeps the file valid and consistent)."""
import json, os, subprocess
HERE = os.path.dirname(os.path.dirname(os.path.abspath(__file__)))

TRUST = ("Trusted base: RefCrypto (relations evaluated directly on bls12_381), the atom tracer (asserted equal to "
         "bincode::serialize on every use), the i128 ledger, the merchant-application stub, bls12_381 / bincode / sha3 / serde. "
         "Seeded search samples its space: a clean batch is evidence, not proof.")

CHECKS = {
 "C03": ("exploration", "4 (C03), 2, 3",
   "Seeded exploration of whole channel histories: real customer stages against the real merchant behind a Byzantine wrapper that holds the secret key; every run ends in a real close() at a drawn stop point; refusals must leave the stage image byte-identical; honest reply accepted on first delivery after the faults stop.",
   "deterministic simulation: seeded plans (faulty replies x stop points x interleavings), Byzantine merchant actor, ideal ledger oracle"),
 "C04": ("exploration", "4 (C04)",
   "Fault-free configuration of the same world, every hop through the real codecs, compared event by event with an i128 ledger over boundary-biased balances and amounts; bounded-step completion of every honest step.",
   "deterministic simulation: seeded fault-free histories vs i128 reference ledger, bounded-step liveness"),
 "C05": ("exploration", "4 (C05)",
   "The merchant's pending payment (real Unrevoked) is fed wrong / foreign / corrupted / compensated revocation candidates before the right one by an adversarial carrier; wrong ones must hand the payment back, the right one must then complete it. Plus: entropy sweep over every draw of Ready::start, a lying customer committing to a decoy lock (C02's forger), and revocation pairs whose SHA3 digest lies in chosen bands around the group order fed to decoder and generator.",
   "deterministic simulation: message substitution across sessions, wire corruption of the lock message, entropy faults, Byzantine customer; recovery after faults"),
 "C14": ("exploration", "4 (C14)",
   "Post-run check over the recorded message history of multi-channel runs: atom reuse against everything the merchant has seen, secrets of the customer's stage image at send time, and the commitment scalar masking each hidden value (computed from the customer's state and the merchant's challenge read through the hook): not revealed, full-size, not shared across link classes. A third of the runs inject a zero draw into the customer's generator.",
   "deterministic simulation: recorded multi-channel histories, whole-history reuse / leakage / mask oracle; entropy faults (zero, stuck, reported failure with crash-and-restart of the customer)"),
 "C15": ("fault_enumeration", "4 (C15)",
   "Every atom of every harvested encoding replaced by each invalid / boundary encoding and decoded by the real decoder; plus a wire-on vs wire-off differential execution of seeded protocol histories.",
   "fault enumeration on wire/storage atoms (single, paired, all-of-a-kind; low-order points; repeated presentation) + differential simulated runs (in-process vs encoded hops)"),
 "C16": ("fault_enumeration", "4 (C16)",
   "Decoders fed mutated encodings (bincode, and serde_json as a second format) through slices and through a faulty Read (short reads, EINTR, EOF, I/O error) in a supervised worker process under a tracking, capped allocator.",
   "fault enumeration: length-prefix / tag / atom corruption, truncation, stream faults (short read, EINTR, EOF, error), long valid sequences, allocator cap and watchdog in a supervised worker process"),
 "C19": ("fault_enumeration", "4 (C19)",
   "Entropy-seam fault enumeration: an all-zero window of width 1-3 at every recorded draw point of every generator, plus crafted non-zero scalar streams (signing exponent zero, repeated secret scalars); outputs re-decoded through the crates' validating decoders and checked with pairing relations.",
   "entropy fault enumeration at recorded draw points (SimRng seam): zero windows, multiples of the modulus, q-1, stuck generator, negated previous element, crafted streams"),
 "C20": ("fault_enumeration", "4 (C20)",
   "Twin execution: a never-stored customer vs a customer crashed and restored from its durable image at a drawn crash set, same keyed entropy, same replies; histories must be byte-identical.",
   "crash/restore fault injection at drawn crash points (slice and short-read stream restore), twin-run history comparison, entropy sweep before the store"),
 "C01": ("exploration", "4 (C01)",
   "Real merchant initialize/activate against a Byzantine customer drawn from a forger family (honest-but-lying, cross-slot, per-relation, post-challenge choice of every non-response field via the challenge hook); acceptance of a statement the actor knows to be false is confirmed by unblinding the returned signatures.",
   "deterministic simulation: Byzantine prover actor (forger family incl. residual pairs, negated commitments) with adaptive (re-ordered) moves observed through the challenge-recorder hook"),
 "C02": ("exploration", "4 (C02)",
   "Same for allow_payment: false variants of the pay statement and post-challenge choice of each non-response field, plus a double-spend check over the merchant's acceptance history.",
   "deterministic simulation: Byzantine prover actor (forger family incl. one-unverified-digit, algebraic token forgery), adaptive ordering via hook, acceptance-history oracle"),
 "C06": ("exploration", "4 (C06)",
   "An eavesdropper records every message of seeded histories and re-presents it in other sessions / channels / merchants and with one verifier-side tuple component substituted; closing messages re-assembled with one field replaced.",
   "deterministic simulation: cross-session replay and single-component substitution by an eavesdropper actor"),
 "C12": ("fault_enumeration", "4 (C12)",
   "In-flight alteration of each non-response atom of a proof after the challenge is fixed (other element, inverse element), wholesale swaps of same-shaped sub-structures, adjacent scalars trading a byte across their boundary; the verifier's challenge (public API at library level, hook inside initialize/allow_payment at zkAbacus level) must move.",
   "tamper-after-challenge fault enumeration per atom (challenge observed through the hook); seeded interleaving of several challenge builders on one thread against a fresh-thread reference; challenge distribution"),
 "C17": ("exploration", "4 (C17)",
   "Ideal-ledger comparison over the property's full boundary lattice with overflow checks on, plus Byzantine wire-decoded amounts reaching the real merchant. Restricted claim: 'all 64-bit inputs' beyond lattice and random draws is sampled.",
   "deterministic simulation: boundary-lattice histories vs i128 ledger, Byzantine wire values"),
 "C18": ("fault_enumeration", "4 (C18)",
   "Entropy-seam fault: the close tag injected at every recorded scalar draw of Requested::new / Ready::start; re-typed replies and re-labelled pay tokens in histories; single-input changes of channel-id derivation.",
   "entropy fault enumeration at recorded draw points (close tag and state-related values), type-confusion replay in simulated histories"),
}

NA = {
 "C07": "single-shot pure predicate verify(pk, msg, sig) and compositions of pure functions: no event order, history, crash point, byte stream or entropy fault for a simulator to own (DESIGN.md section 5); consequences covered by C03/C04/C06/C15",
 "C08": "stateless three-call function composition with no state carried by either party; consequences covered by the honest controls of C01/C02 and by C04",
 "C09": "algebraic identity of a pure function; nothing to schedule or fault; consequences covered by C04/C05",
 "C10": "completeness of pure prover/verifier functions over their inputs; its zkAbacus instance is claimed as C04",
 "C11": "exact acceptance set of stateless verifier functions; protocol-visible part is inside the forger family of C01/C02",
 "C13": "exact acceptance set of a stateless constraint verifier; protocol-visible part is inside C02's forger family",
}

def built():
    try:
        out = subprocess.run([os.path.join(HERE, "sim/target/release/zksim"), "list"], capture_output=True, text=True).stdout.split()
        return set(out)
    except Exception:
        return set(CHECKS)

def main():
    have = built()
    checks = []
    for pid in sorted(CHECKS):
        if pid not in have:
            continue
        level, ref, text, tech = CHECKS[pid]
        checks.append({
            "property_id": pid,
            "quick_cmd": "./check %s quick" % pid,
            "thorough_cmd": "./check %s thorough" % pid,
            "evidence_file": "/verif/evidence/%s.json" % pid,
            "replay_cmd_template": "./check replay {path}",
            "engine": "zksim",
            "level_claimed": {"category": level, "text": text, "design_ref": "DESIGN.md section " + ref},
            "level_note": TRUST,
            "technique": tech,
        })
    commits = subprocess.run(["git", "-C", "/repo", "log", "--format=%H %s"], capture_output=True, text=True).stdout.splitlines()
    hook_commits = [l.split()[0] for l in commits if "verif-hooks" in l]
    man = {
        "version": 1,
        "setup_cmd": "./check build",
        "hooks": {
            "guard": "verif-hooks (cargo feature of zkchannels-crypto)",
            "enable": "the simulator crate depends on /repo/zkchannels-crypto with features [\"bincode\", \"verif-hooks\"]; recording is additionally switched on per thread only around verifier calls",
            "baseline_off_cmd": "cd /repo && cargo test --workspace --no-fail-fast --offline",
            "source_commits": hook_commits,
            "add_only": True,
        },
        "engines": [{
            "name": "zksim",
            "path": "/verif/sim",
            "serves_properties": [c["property_id"] for c in checks],
            "kind_free_text": "deterministic simulator with fault injection: single-threaded discrete-event world (real customer / merchant code, stub network, disk, entropy), seeded plans, Byzantine actors, reference ledger, minimisation and replay files",
        }],
        "checks": checks,
        "not_applicable": [{"property_id": k, "reason": v} for k, v in sorted(NA.items())],
        "notes": "Exit codes: 0 held on everything explored, 1 violation (VIOLATION property=<id> replay=<path>), 2 harness error (build failure, failed positive control, replay mismatch, unreachable probe). Known findings: /verif/known_findings.json. VERIF_SEED (default 1), VERIF_TIER, VERIF_BUDGET_S, VERIF_THREADS are honoured.",
    }
    with open(os.path.join(HERE, "MANIFEST.json"), "w") as f:
        json.dump(man, f, indent=1)
        f.write("\n")
    print("MANIFEST.json: %d checks, %d not applicable" % (len(checks), len(NA)))

if __name__ == "__main__":
    main()
