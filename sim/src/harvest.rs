//! Harvest: honestly produced encodings of every registered type, from one linear zkAbacus
//! session (layer A) and from the parameter-and-credential distribution world (layer B).

use crate::atoms;
use crate::mctx::merchant;
use crate::rng::SimRng;
use crate::types::*;
use bls12_381::{G1Affine, G1Projective, G2Affine, G2Projective, Scalar};
use ff::Field;
use group::Group;
use serde::Serialize;
use zkabacus_crypto as za;
use zkchannels_crypto::{pedersen::*, pointcheval_sanders::*, proofs::*, BlindingFactor, Message};

#[derive(Clone, Debug)]
pub struct Sample {
    pub ty: String,
    pub trace: crate::atoms::Trace,
}

fn push<T: Serialize>(out: &mut Vec<Sample>, ty: &str, v: &T) {
    out.push(Sample {
        ty: ty.to_string(),
        trace: atoms::trace(v),
    });
}

fn honest_fail(what: &str) -> ! {
    crate::harness_error(&format!("harvest: honest step `{}` failed (positive control)", what))
}

/// One honest establish + payment(s) + close; every message and every stage image.
pub fn abacus(seed: u64, stream: u64, mspec: &str) -> Vec<Sample> {
    let m = merchant(mspec);
    let mut out = Vec::new();
    let mut rng = SimRng::new(seed, &format!("harvest/abacus/{}", stream));
    let mr = za::MerchantRandomness::new(&mut rng);
    let cr = za::CustomerRandomness::new(&mut rng);
    push(&mut out, "MerchantRandomness", &mr);
    push(&mut out, "CustomerRandomness", &cr);
    let cid = za::ChannelId::new(mr, cr, m.cfg.signing_keypair().public_key(), b"merchant-account", b"customer-account");
    push(&mut out, "ChannelId", &cid);
    let ctx = za::Context::new(format!("harvest-{}-{}", seed, stream).as_bytes());
    let cb0 = 1000 + (stream % 7) * 131;
    let mb0 = 50 + (stream % 5) * 17;
    let cb = za::CustomerBalance::try_new(cb0).unwrap_or_else(|_| honest_fail("CustomerBalance::try_new"));
    let mb = za::MerchantBalance::try_new(mb0).unwrap_or_else(|_| honest_fail("MerchantBalance::try_new"));
    push(&mut out, "CustomerBalance", &cb);
    push(&mut out, "MerchantBalance", &mb);
    push(&mut out, "customer::Config", &m.ccfg);
    let (req, proof) = za::customer::Requested::new(&mut rng, &m.ccfg, cid, mb, cb, &ctx);
    push(&mut out, "customer::Requested", &req);
    push(&mut out, "EstablishProof", &proof);
    let (cs, vbs) = m
        .cfg
        .initialize(&mut rng, &cid, cb, mb, proof, &ctx)
        .unwrap_or_else(|| honest_fail("initialize"));
    push(&mut out, "ClosingSignature(blinded)", &cs);
    let inactive = req.complete(cs, &m.ccfg).unwrap_or_else(|_| honest_fail("complete"));
    push(&mut out, "customer::Inactive", &inactive);
    let pt = m.cfg.activate(&mut rng, vbs);
    push(&mut out, "PayToken(blinded)", &pt);
    let mut ready = inactive.activate(pt, &m.ccfg).unwrap_or_else(|_| honest_fail("activate"));
    push(&mut out, "customer::Ready", &ready);
    let amounts: [i64; 2] = [10 + (stream % 3) as i64, -3];
    for (k, a) in amounts.iter().enumerate() {
        let amt = if *a >= 0 {
            za::PaymentAmount::pay_merchant(*a as u64)
        } else {
            za::PaymentAmount::pay_customer((-*a) as u64)
        }
        .unwrap_or_else(|_| honest_fail("PaymentAmount"));
        push(&mut out, "PaymentAmount", &amt);
        let pctx = za::Context::new(format!("harvest-pay-{}-{}-{}", seed, stream, k).as_bytes());
        let (started, sm) = ready
            .start(&mut rng, amt, &pctx, &m.ccfg)
            .unwrap_or_else(|_| honest_fail("start"));
        push(&mut out, "customer::Started", &started);
        push(&mut out, "Nonce", &sm.nonce);
        push(&mut out, "PayProof", &sm.pay_proof);
        let (unrev, cs) = m
            .cfg
            .allow_payment(&mut rng, amt, &sm.nonce, sm.pay_proof, &pctx)
            .unwrap_or_else(|| honest_fail("allow_payment"));
        push(&mut out, "ClosingSignature(blinded)", &cs);
        let (locked, lm) = started.lock(cs, &m.ccfg).unwrap_or_else(|_| honest_fail("lock"));
        push(&mut out, "customer::Locked", &locked);
        push(&mut out, "RevocationPair", &lm.revocation_pair);
        push(&mut out, "RevocationLock", &lm.revocation_pair.revocation_lock());
        push(&mut out, "RevocationSecret", &lm.revocation_pair.revocation_secret());
        push(&mut out, "RevocationLockBlindingFactor", &lm.revocation_lock_blinding_factor);
        let pt = unrev
            .complete_payment(&mut rng, &lm.revocation_pair, &lm.revocation_lock_blinding_factor)
            .unwrap_or_else(|_| honest_fail("complete_payment"));
        push(&mut out, "PayToken(blinded)", &pt);
        ready = locked.unlock(pt, &m.ccfg).unwrap_or_else(|_| honest_fail("unlock"));
        push(&mut out, "customer::Ready", &ready);
    }
    let cm = ready.close(&mut rng);
    push(&mut out, "customer::ClosingMessage", &cm);
    let (sig, cstate) = cm.into_parts();
    push(&mut out, "CloseStateSignature", &sig);
    push(&mut out, "CloseState", &cstate);
    // more small values with independent randomness (decoders of validated types branch on it)
    for _ in 0..16 {
        let pair = za::internal::test_new_revocation_pair(&mut rng);
        push(&mut out, "RevocationPair", &pair);
        push(&mut out, "RevocationSecret", &pair.revocation_secret());
        push(&mut out, "RevocationLock", &pair.revocation_lock());
        push(&mut out, "Nonce", &za::internal::test_new_nonce(&mut rng));
    }
    push(&mut out, "Error", &za::Error::InsufficientFunds);
    push(&mut out, "Error", &za::Error::AmountTooLarge(1u64 << 63));
    out
}

fn lib_n<const N: usize>(out: &mut Vec<Sample>, rng: &mut SimRng) {
    let kp = KeyPair::<N>::new(rng);
    push(out, &format!("KeyPair<{}>", N), &kp);
    push(out, &format!("PublicKey<{}>", N), kp.public_key());
    let p1 = PedersenParameters::<G1Projective, N>::new(rng);
    let p2 = PedersenParameters::<G2Projective, N>::new(rng);
    push(out, &format!("PedersenParameters<G1,{}>", N), &p1);
    push(out, &format!("PedersenParameters<G2,{}>", N), &p2);
    let msg = Message::<N>::random(rng);
    let b1 = CommitmentProofBuilder::generate_proof_commitments(rng, msg.clone(), &[None; N], &p1);
    let c1 = ChallengeBuilder::new().with(&b1).with(&p1).finish();
    push(out, "Commitment<G1>", &b1.commitment());
    push(out, &format!("CommitmentProof<G1,{}>", N), &b1.generate_proof_response(c1));
    let b2 = CommitmentProofBuilder::generate_proof_commitments(rng, msg.clone(), &[None; N], &p2);
    let c2 = ChallengeBuilder::new().with(&b2).with(&p2).finish();
    push(out, "Commitment<G2>", &b2.commitment());
    push(out, &format!("CommitmentProof<G2,{}>", N), &b2.generate_proof_response(c2));
    let sig = msg.sign(rng, &kp);
    push(out, "Signature", &sig);
    let sb = SignatureProofBuilder::generate_proof_commitments(rng, msg.clone(), sig, &[None; N], kp.public_key());
    let c3 = ChallengeBuilder::new().with(&sb).with(kp.public_key()).finish();
    push(out, &format!("SignatureProof<{}>", N), &sb.generate_proof_response(c3));
    let rb = SignatureRequestProofBuilder::generate_proof_commitments(rng, msg.clone(), &[None; N], kp.public_key());
    let bf = rb.message_blinding_factor();
    push(out, "BlindingFactor", &bf);
    push(out, "BlindedMessage", &msg.blind(kp.public_key(), bf));
    let c4 = ChallengeBuilder::new().with(&rb).with(kp.public_key()).finish();
    let rp = rb.generate_proof_response(c4);
    push(out, &format!("SignatureRequestProof<{}>", N), &rp);
    match rp.verify_knowledge_of_opening(kp.public_key(), c4) {
        Some(vbm) => push(out, "BlindedSignature", &vbm.blind_sign(&kp, rng)),
        None => honest_fail("verify_knowledge_of_opening"),
    }
    // element codecs
    let mut scalars = [Scalar::zero(); N];
    let mut g1s = [G1Affine::identity(); N];
    let mut g2s = [G2Projective::identity(); N];
    for i in 0..N {
        scalars[i] = Scalar::random(&mut *rng);
        g1s[i] = G1Affine::from(G1Projective::random(&mut *rng));
        g2s[i] = G2Projective::random(&mut *rng);
    }
    push(out, &format!("[Scalar;{}]", N), &ArrOf::<Scalar, N>(scalars));
    push(out, &format!("Box<[Scalar;{}]>", N), &BoxArrOf::<Scalar, N>(Box::new(scalars)));
    push(out, &format!("[G1;{}]", N), &ArrOf::<G1Affine, N>(g1s));
    push(out, &format!("Box<[G2;{}]>", N), &BoxArrOf::<G2Projective, N>(Box::new(g2s)));
    push(out, "Vec<Scalar>", &VecOf::<Scalar>(scalars.to_vec()));
    push(out, "Vec<G1>", &VecOf::<G1Projective>(g1s.iter().map(|g| G1Projective::from(*g)).collect()));
    push(out, "Vec<G2>", &VecOf::<G2Affine>(g2s.iter().map(|g| G2Affine::from(*g)).collect()));
    push(out, "Scalar", &One(scalars[0]));
    push(out, "G1Affine", &One(g1s[0]));
    push(out, "G1Projective", &One(G1Projective::from(g1s[0])));
    push(out, "G2Affine", &One(G2Affine::from(g2s[0])));
    push(out, "G2Projective", &One(g2s[0]));
}

/// Layer B: an authority generates keys and parameters, signs and proves, for tuple length `n`.
pub fn lib(seed: u64, stream: u64, n: usize) -> Vec<Sample> {
    let mut out = Vec::new();
    let mut rng = SimRng::new(seed, &format!("harvest/lib/{}/{}", n, stream));
    match n {
        1 => lib_n::<1>(&mut out, &mut rng),
        2 => lib_n::<2>(&mut out, &mut rng),
        3 => lib_n::<3>(&mut out, &mut rng),
        5 => lib_n::<5>(&mut out, &mut rng),
        8 => lib_n::<8>(&mut out, &mut rng),
        13 => lib_n::<13>(&mut out, &mut rng),
        _ => crate::harness_error("harvest::lib: unsupported N"),
    }
    out
}

/// Range parameters and one range constraint (taken from a merchant context).
pub fn range(seed: u64, stream: u64, mspec: &str) -> Vec<Sample> {
    let m = merchant(mspec);
    let mut out = Vec::new();
    let mut rng = SimRng::new(seed, &format!("harvest/range/{}", stream));
    let rp = m.cfg.range_constraint_parameters();
    push(&mut out, "RangeConstraintParameters", rp);
    let value = (crate::rng::mix(&[seed, stream]) >> 1) as i64;
    let b = match RangeConstraintBuilder::generate_constraint_commitments(value, rp, &mut rng) {
        Ok(b) => b,
        Err(_) => honest_fail("generate_constraint_commitments"),
    };
    let c = ChallengeBuilder::new().with(&b).with(rp).finish();
    push(&mut out, "RangeConstraint", &b.generate_constraint_response(c));
    out
}

/// Everything: at least one sample of every registered type.
pub fn all(seed: u64, stream: u64, mspec: &str) -> Vec<Sample> {
    let mut out = abacus(seed, stream, mspec);
    for n in [1usize, 2, 3, 5, 8, 13] {
        out.extend(lib(seed, stream, n));
    }
    out.extend(range(seed, stream, mspec));
    out
}

/// Process-wide cache of harvests (a pure function of its key and the code under test).
pub fn cached(seed: u64, stream: u64, mspec: &str) -> &'static Vec<Sample> {
    use std::collections::BTreeMap;
    use std::sync::{Mutex, OnceLock};
    static C: OnceLock<Mutex<BTreeMap<(u64, u64, String), &'static Vec<Sample>>>> = OnceLock::new();
    let m = C.get_or_init(|| Mutex::new(BTreeMap::new()));
    let key = (seed, stream, mspec.to_string());
    // computed while holding the lock: the same honest session must never be executed twice in one
    // process (a library that keeps process-wide state would see its values presented twice)
    let mut g = m.lock().unwrap_or_else(|e| e.into_inner());
    if let Some(p) = g.get(&key) {
        return p;
    }
    let p: &'static Vec<Sample> = Box::leak(Box::new(all(seed, stream, mspec)));
    g.insert(key, p);
    p
}

/// An honest start message with everything a verifier needs: (amount, nonce, proof, context) —
/// produced by a real customer one payment into a channel; the merchant accepts it (asserted by
/// the callers' positive controls).
pub struct PaySample {
    pub amount: i64,
    pub nonce: Vec<u8>,
    pub proof: crate::atoms::Trace,
    pub ctx: Vec<u8>,
    pub cust_before: u64,
    pub merch_before: u64,
    pub cid: [u8; 32],
}

fn make_pay_sample(k: u64, mspec: &str) -> PaySample {
    let m = merchant(mspec);
    let mut rng = SimRng::new(0x9A75A, &format!("harvest/pay-sample/{}/{}", mspec, k));
    let mr = za::MerchantRandomness::new(&mut rng);
    let cr = za::CustomerRandomness::new(&mut rng);
    let cid = za::ChannelId::new(mr, cr, m.cfg.signing_keypair().public_key(), b"merchant-account", b"customer-account");
    let ctx = za::Context::new(format!("pay-sample-est-{}", k).as_bytes());
    let cb0 = 500 + 37 * k;
    let mb0 = 40 + 3 * k;
    let cb = za::CustomerBalance::try_new(cb0).unwrap();
    let mb = za::MerchantBalance::try_new(mb0).unwrap();
    let (req, proof) = za::customer::Requested::new(&mut rng, &m.ccfg, cid, mb, cb, &ctx);
    let (cs, vbs) = m.cfg.initialize(&mut rng, &cid, cb, mb, proof, &ctx).unwrap_or_else(|| honest_fail("initialize"));
    let inactive = req.complete(cs, &m.ccfg).unwrap_or_else(|_| honest_fail("complete"));
    let pt = m.cfg.activate(&mut rng, vbs);
    let ready = inactive.activate(pt, &m.ccfg).unwrap_or_else(|_| honest_fail("activate"));
    let amount: i64 = if k % 2 == 0 { 11 + k as i64 } else { -(5 + k as i64) };
    let amt = if amount >= 0 { za::PaymentAmount::pay_merchant(amount as u64) } else { za::PaymentAmount::pay_customer((-amount) as u64) }.unwrap();
    let ctx_bytes = format!("pay-sample-pay-{}", k).into_bytes();
    let pctx = za::Context::new(&ctx_bytes);
    let (_started, sm) = ready.start(&mut rng, amt, &pctx, &m.ccfg).unwrap_or_else(|_| honest_fail("start"));
    PaySample {
        amount,
        nonce: atoms::encode(&sm.nonce),
        proof: atoms::trace(&sm.pay_proof),
        ctx: ctx_bytes,
        cust_before: cb0,
        merch_before: mb0,
        cid: cid.to_bytes(),
    }
}

pub fn pay_sample(k: u64, mspec: &str) -> &'static PaySample {
    use std::collections::BTreeMap;
    use std::sync::{Mutex, OnceLock};
    static C: OnceLock<Mutex<BTreeMap<(u64, String), &'static PaySample>>> = OnceLock::new();
    let m = C.get_or_init(|| Mutex::new(BTreeMap::new()));
    let key = (k, mspec.to_string());
    let mut g = m.lock().unwrap_or_else(|e| e.into_inner());
    if let Some(p) = g.get(&key) {
        return p;
    }
    let p: &'static PaySample = Box::leak(Box::new(make_pay_sample(k, mspec)));
    g.insert(key, p);
    p
}
