//! zksim — deterministic simulation with fault injection for libzkchannels-crypto.
//! See /verif/DESIGN.md.

mod alloc;
mod atoms;
mod driver;
mod forge;
mod harvest;
mod mctx;
mod mutate;
mod plangen;
mod props;
mod refc;
mod rng;
mod types;
mod world;

#[global_allocator]
static GLOBAL: alloc::TrackAlloc = alloc::TrackAlloc;

use driver::{Prop, Tier};

pub const REAL_VS_STUB: &str = "real: every zkabacus-crypto / zkchannels-crypto call (customer stages, merchant Config/Unrevoked, provers, verifiers, signers, key and parameter generators, serde codecs, bincode, bls12_381, sha3). stub: network (in-memory message multiset), customer disk (last bincode image), entropy (SimRng: keyed ChaCha20 with draw recording and fault plan), out-of-band agreement oracle, merchant application duties (fresh id / nonce / lock sets), Byzantine actors and reference models (RefCrypto on raw bls12_381, i128 ledger, atom tracer)";

/// Abort the current case with a harness error (exit 2 at top level; never a VIOLATION).
pub fn harness_error(msg: &str) -> ! {
    panic!("HARNESS: {}", msg);
}

pub fn hash_str(s: &str) -> u64 {
    s.bytes().fold(0xcbf29ce484222325u64, |a, b| (a ^ b as u64).wrapping_mul(0x100000001b3))
}

pub fn hash_bytes(s: &[u8]) -> u64 {
    s.iter().fold(0xcbf29ce484222325u64, |a, b| (a ^ *b as u64).wrapping_mul(0x100000001b3))
}

fn all_props() -> Vec<Box<dyn Prop>> {
    props::all()
}

fn usage() -> i32 {
    eprintln!("usage: zksim check <id> <quick|thorough> | replay <path> [--quiet] | list");
    2
}

fn real_main() -> i32 {
    driver::install_panic_hook();
    let args: Vec<String> = std::env::args().collect();
    if args.len() < 2 {
        return usage();
    }
    match args[1].as_str() {
        "list" => {
            for p in all_props() {
                println!("{}", p.id());
            }
            0
        }
        "check" => {
            if args.len() < 3 {
                return usage();
            }
            let id = args[2].as_str();
            let tier_s = std::env::var("VERIF_TIER").ok().filter(|s| !s.is_empty());
            let tier_s = if args.len() >= 4 { args[3].clone() } else { tier_s.unwrap_or_else(|| "quick".into()) };
            let tier = match tier_s.as_str() {
                "quick" => Tier::Quick,
                "thorough" => Tier::Thorough,
                _ => return usage(),
            };
            let seed: u64 = std::env::var("VERIF_SEED").ok().and_then(|s| s.parse().ok()).unwrap_or(1);
            let props = all_props();
            match props.iter().find(|p| p.id() == id) {
                Some(p) => driver::check(p.as_ref(), tier, seed),
                None => {
                    eprintln!("HARNESS-ERROR: no check for property {}", id);
                    2
                }
            }
        }
        "replay" => {
            if args.len() < 3 {
                return usage();
            }
            let quiet = args.iter().any(|a| a == "--quiet");
            driver::replay(&all_props(), &args[2], quiet)
        }
        "decode-worker" => props::c16::worker_main(),
        "find-long-index" => {
            // offline search (not part of any check): a revocation secret Scalar::from(k) whose
            // SHA3-256(secret || index) is a non-canonical scalar for every index below <min>
            use sha3::{Digest, Sha3_256};
            let min: u8 = args.get(2).and_then(|x| x.parse().ok()).unwrap_or(8);
            let threads: u64 = 16;
            let found = std::sync::Arc::new(std::sync::atomic::AtomicU64::new(0));
            let hs: Vec<_> = (0..threads)
                .map(|t| {
                    let found = found.clone();
                    std::thread::spawn(move || {
                        let mut k = 1 + t;
                        while found.load(std::sync::atomic::Ordering::Relaxed) == 0 {
                            let secret = bls12_381::Scalar::from(k).to_bytes();
                            let mut idx = 0u8;
                            loop {
                                let d = Sha3_256::new().chain(secret).chain([idx]).finalize();
                                if refc::sc_opt(d.as_ref()).is_some() || idx == 255 {
                                    break;
                                }
                                idx += 1;
                            }
                            if idx >= min {
                                found.store(k, std::sync::atomic::Ordering::Relaxed);
                                println!("k={} first_canonical_index={}", k, idx);
                            }
                            k += threads;
                        }
                    })
                })
                .collect();
            for h in hs {
                let _ = h.join();
            }
            0
        }
        "harvest" => {
            // debugging aid: list the harvested samples (index, type, bytes, atoms)
            let seed: u64 = args.get(2).and_then(|s| s.parse().ok()).unwrap_or(1);
            for (i, sm) in harvest::cached(seed, 0, "9001").iter().enumerate() {
                if sm.trace.bytes.len() <= 70 {
                    println!("   hex={}", sm.trace.bytes.iter().map(|b| format!("{:02x}", b)).collect::<String>());
                }
                println!("{} {} bytes={} atoms={}", i, sm.ty, sm.trace.bytes.len(), sm.trace.atoms.iter().map(|a| format!("{}:{:?}/{}", a.path, a.kind, a.len)).collect::<Vec<_>>().join(" ").chars().take(200).collect::<String>());
            }
            0
        }
        "decode" => {
            // debugging aid: zksim decode <registered type name> <hex bytes>
            if args.len() < 4 {
                return usage();
            }
            let hex = &args[3];
            let bytes: Vec<u8> = (0..hex.len() / 2).filter_map(|i| u8::from_str_radix(&hex[2 * i..2 * i + 2], 16).ok()).collect();
            let e = types::registry().get(&args[2]);
            let r = std::panic::catch_unwind(|| (e.decode)(&bytes));
            match r {
                Ok(Ok(re)) => println!("decoded; re-encodes to {} bytes; identical: {}", re.len(), re == bytes),
                Ok(Err(err)) => println!("refused: {}", err),
                Err(_) => {
                    let (loc, msg) = driver::take_panic();
                    println!("PANIC at {}: {}", loc, msg);
                }
            }
            0
        }
        _ => usage(),
    }
}

fn main() {
    let code = match std::panic::catch_unwind(real_main) {
        Ok(c) => c,
        Err(_) => {
            let (loc, msg) = driver::take_panic();
            eprintln!("HARNESS-ERROR: {} at {}", msg, loc);
            2
        }
    };
    std::process::exit(code);
}
