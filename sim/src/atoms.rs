//! Atom tracer: a `serde::Serializer` that mirrors bincode's default format (fixed-width
//! little-endian integers, u64 sequence length prefixes, u32 enum tags, u8 option tags) and
//! records the span, kind and field path of every atom it writes. Its byte output is asserted
//! equal to `bincode::serialize` on every use, so it cannot drift from the real wire layout.

use serde::ser::{self, Serialize};
use std::fmt;

#[derive(Clone, Copy, Debug, PartialEq, Eq, PartialOrd, Ord)]
pub enum AtomKind {
    /// A fixed-size byte string (32: scalar / id / randomness; 48: G1; 96: G2; other sizes too).
    Bytes,
    U8,
    Bool,
    U16,
    U32,
    U64,
    I8,
    I16,
    I32,
    I64,
    F32,
    F64,
    U128,
    I128,
    Char,
    /// u64 length prefix of a sequence / map / string / byte buffer.
    SeqLen,
    /// u32 enum variant index.
    EnumTag,
    /// u8 option tag.
    OptionTag,
    /// raw bytes of a string or `serialize_bytes` payload.
    Blob,
}

#[derive(Clone, Debug, PartialEq, Eq)]
pub struct Atom {
    pub off: usize,
    pub len: usize,
    pub kind: AtomKind,
    pub path: String,
}

#[derive(Clone, Debug)]
pub struct Trace {
    pub bytes: Vec<u8>,
    pub atoms: Vec<Atom>,
}

impl Trace {
    pub fn atom_bytes(&self, i: usize) -> &[u8] {
        let a = &self.atoms[i];
        &self.bytes[a.off..a.off + a.len]
    }
    pub fn find(&self, path: &str) -> Option<usize> {
        self.atoms.iter().position(|a| a.path == path)
    }
    pub fn get(&self, path: &str) -> &[u8] {
        match self.find(path) {
            Some(i) => self.atom_bytes(i),
            None => crate::harness_error(&format!(
                "atom path `{}` not found; available: {:?}",
                path,
                self.atoms.iter().map(|a| a.path.clone()).collect::<Vec<_>>()
            )),
        }
    }
    pub fn set(&mut self, path: &str, bytes: &[u8]) {
        let i = match self.find(path) {
            Some(i) => i,
            None => crate::harness_error(&format!("atom path `{}` not found (set)", path)),
        };
        self.set_atom(i, bytes);
    }
    pub fn set_atom(&mut self, i: usize, bytes: &[u8]) {
        let a = &self.atoms[i];
        if a.len != bytes.len() {
            crate::harness_error(&format!(
                "atom `{}` has length {}, replacement has {}",
                a.path,
                a.len,
                bytes.len()
            ));
        }
        let (off, len) = (a.off, a.len);
        self.bytes[off..off + len].copy_from_slice(bytes);
    }
    /// All atoms of byte-string kind with the given length.
    pub fn bytes_atoms(&self, len: usize) -> Vec<usize> {
        (0..self.atoms.len())
            .filter(|&i| self.atoms[i].kind == AtomKind::Bytes && self.atoms[i].len == len)
            .collect()
    }
}

#[derive(Debug)]
pub struct TraceError(String);
impl fmt::Display for TraceError {
    fn fmt(&self, f: &mut fmt::Formatter<'_>) -> fmt::Result {
        write!(f, "{}", self.0)
    }
}
impl std::error::Error for TraceError {}
impl ser::Error for TraceError {
    fn custom<T: fmt::Display>(msg: T) -> Self {
        TraceError(msg.to_string())
    }
}

#[derive(Default)]
struct Tr {
    out: Vec<u8>,
    atoms: Vec<Atom>,
    path: Vec<String>,
}

impl Tr {
    fn path_string(&self) -> String {
        let mut s = String::new();
        for c in &self.path {
            if c.starts_with('[') {
                s.push_str(c);
            } else {
                if !s.is_empty() {
                    s.push('.');
                }
                s.push_str(c);
            }
        }
        s
    }
    fn put(&mut self, kind: AtomKind, bytes: &[u8]) {
        let off = self.out.len();
        self.out.extend_from_slice(bytes);
        let path = self.path_string();
        self.atoms.push(Atom {
            off,
            len: bytes.len(),
            kind,
            path,
        });
    }
    fn put_suffix(&mut self, kind: AtomKind, suffix: &str, bytes: &[u8]) {
        self.path.push(suffix.to_string());
        self.put(kind, bytes);
        self.path.pop();
    }
}

pub struct Compound<'a> {
    tr: &'a mut Tr,
    idx: usize,
    start_atom: usize,
    start_off: usize,
    collapse: bool,
}

impl<'a> Compound<'a> {
    fn new(tr: &'a mut Tr, collapse: bool) -> Self {
        let start_atom = tr.atoms.len();
        let start_off = tr.out.len();
        Compound {
            tr,
            idx: 0,
            start_atom,
            start_off,
            collapse,
        }
    }
    fn elem<T: ?Sized + Serialize>(&mut self, v: &T) -> Result<(), TraceError> {
        self.tr.path.push(format!("[{}]", self.idx));
        self.idx += 1;
        let r = v.serialize(&mut *self.tr);
        self.tr.path.pop();
        r
    }
    fn field<T: ?Sized + Serialize>(&mut self, key: &str, v: &T) -> Result<(), TraceError> {
        self.tr.path.push(key.to_string());
        self.idx += 1;
        let r = v.serialize(&mut *self.tr);
        self.tr.path.pop();
        r
    }
    fn finish(self) {
        if !self.collapse || self.idx < 2 {
            return;
        }
        let added = &self.tr.atoms[self.start_atom..];
        if added.len() == self.idx && added.iter().all(|a| a.kind == AtomKind::U8) {
            let len = self.tr.out.len() - self.start_off;
            self.tr.atoms.truncate(self.start_atom);
            let path = self.tr.path_string();
            self.tr.atoms.push(Atom {
                off: self.start_off,
                len,
                kind: AtomKind::Bytes,
                path,
            });
        }
    }
}

macro_rules! prim {
    ($name:ident, $ty:ty, $kind:expr) => {
        fn $name(self, v: $ty) -> Result<(), TraceError> {
            self.put($kind, &v.to_le_bytes());
            Ok(())
        }
    };
}

impl<'a> ser::Serializer for &'a mut Tr {
    type Ok = ();
    type Error = TraceError;
    type SerializeSeq = Compound<'a>;
    type SerializeTuple = Compound<'a>;
    type SerializeTupleStruct = Compound<'a>;
    type SerializeTupleVariant = Compound<'a>;
    type SerializeMap = Compound<'a>;
    type SerializeStruct = Compound<'a>;
    type SerializeStructVariant = Compound<'a>;

    fn serialize_bool(self, v: bool) -> Result<(), TraceError> {
        self.put(AtomKind::Bool, &[v as u8]);
        Ok(())
    }
    prim!(serialize_i8, i8, AtomKind::I8);
    prim!(serialize_i16, i16, AtomKind::I16);
    prim!(serialize_i32, i32, AtomKind::I32);
    prim!(serialize_i64, i64, AtomKind::I64);
    prim!(serialize_i128, i128, AtomKind::I128);
    prim!(serialize_u8, u8, AtomKind::U8);
    prim!(serialize_u16, u16, AtomKind::U16);
    prim!(serialize_u32, u32, AtomKind::U32);
    prim!(serialize_u64, u64, AtomKind::U64);
    prim!(serialize_u128, u128, AtomKind::U128);
    fn serialize_f32(self, v: f32) -> Result<(), TraceError> {
        self.put(AtomKind::F32, &v.to_bits().to_le_bytes());
        Ok(())
    }
    fn serialize_f64(self, v: f64) -> Result<(), TraceError> {
        self.put(AtomKind::F64, &v.to_bits().to_le_bytes());
        Ok(())
    }
    fn serialize_char(self, v: char) -> Result<(), TraceError> {
        let mut b = [0u8; 4];
        let s = v.encode_utf8(&mut b);
        self.put(AtomKind::Char, s.as_bytes());
        Ok(())
    }
    fn serialize_str(self, v: &str) -> Result<(), TraceError> {
        self.put_suffix(AtomKind::SeqLen, "#len", &(v.len() as u64).to_le_bytes());
        if !v.is_empty() {
            self.put(AtomKind::Blob, v.as_bytes());
        }
        Ok(())
    }
    fn serialize_bytes(self, v: &[u8]) -> Result<(), TraceError> {
        self.put_suffix(AtomKind::SeqLen, "#len", &(v.len() as u64).to_le_bytes());
        if !v.is_empty() {
            self.put(AtomKind::Blob, v);
        }
        Ok(())
    }
    fn serialize_none(self) -> Result<(), TraceError> {
        self.put_suffix(AtomKind::OptionTag, "#opt", &[0]);
        Ok(())
    }
    fn serialize_some<T: ?Sized + Serialize>(self, value: &T) -> Result<(), TraceError> {
        self.put_suffix(AtomKind::OptionTag, "#opt", &[1]);
        value.serialize(self)
    }
    fn serialize_unit(self) -> Result<(), TraceError> {
        Ok(())
    }
    fn serialize_unit_struct(self, _name: &'static str) -> Result<(), TraceError> {
        Ok(())
    }
    fn serialize_unit_variant(
        self,
        _name: &'static str,
        variant_index: u32,
        _variant: &'static str,
    ) -> Result<(), TraceError> {
        self.put_suffix(AtomKind::EnumTag, "#tag", &variant_index.to_le_bytes());
        Ok(())
    }
    fn serialize_newtype_struct<T: ?Sized + Serialize>(
        self,
        _name: &'static str,
        value: &T,
    ) -> Result<(), TraceError> {
        value.serialize(self)
    }
    fn serialize_newtype_variant<T: ?Sized + Serialize>(
        self,
        _name: &'static str,
        variant_index: u32,
        variant: &'static str,
        value: &T,
    ) -> Result<(), TraceError> {
        self.put_suffix(AtomKind::EnumTag, "#tag", &variant_index.to_le_bytes());
        self.path.push(variant.to_string());
        let r = value.serialize(&mut *self);
        self.path.pop();
        r
    }
    fn serialize_seq(self, len: Option<usize>) -> Result<Compound<'a>, TraceError> {
        let len = len.ok_or_else(|| TraceError("sequence length required".into()))?;
        self.put_suffix(AtomKind::SeqLen, "#len", &(len as u64).to_le_bytes());
        Ok(Compound::new(self, false))
    }
    fn serialize_tuple(self, _len: usize) -> Result<Compound<'a>, TraceError> {
        Ok(Compound::new(self, true))
    }
    fn serialize_tuple_struct(
        self,
        _name: &'static str,
        _len: usize,
    ) -> Result<Compound<'a>, TraceError> {
        Ok(Compound::new(self, false))
    }
    fn serialize_tuple_variant(
        self,
        _name: &'static str,
        variant_index: u32,
        _variant: &'static str,
        _len: usize,
    ) -> Result<Compound<'a>, TraceError> {
        self.put_suffix(AtomKind::EnumTag, "#tag", &variant_index.to_le_bytes());
        Ok(Compound::new(self, false))
    }
    fn serialize_map(self, len: Option<usize>) -> Result<Compound<'a>, TraceError> {
        let len = len.ok_or_else(|| TraceError("map length required".into()))?;
        self.put_suffix(AtomKind::SeqLen, "#len", &(len as u64).to_le_bytes());
        Ok(Compound::new(self, false))
    }
    fn serialize_struct(
        self,
        _name: &'static str,
        _len: usize,
    ) -> Result<Compound<'a>, TraceError> {
        Ok(Compound::new(self, false))
    }
    fn serialize_struct_variant(
        self,
        _name: &'static str,
        variant_index: u32,
        _variant: &'static str,
        _len: usize,
    ) -> Result<Compound<'a>, TraceError> {
        self.put_suffix(AtomKind::EnumTag, "#tag", &variant_index.to_le_bytes());
        Ok(Compound::new(self, false))
    }
    fn is_human_readable(&self) -> bool {
        false
    }
}

impl<'a> ser::SerializeSeq for Compound<'a> {
    type Ok = ();
    type Error = TraceError;
    fn serialize_element<T: ?Sized + Serialize>(&mut self, v: &T) -> Result<(), TraceError> {
        self.elem(v)
    }
    fn end(self) -> Result<(), TraceError> {
        self.finish();
        Ok(())
    }
}
impl<'a> ser::SerializeTuple for Compound<'a> {
    type Ok = ();
    type Error = TraceError;
    fn serialize_element<T: ?Sized + Serialize>(&mut self, v: &T) -> Result<(), TraceError> {
        self.elem(v)
    }
    fn end(self) -> Result<(), TraceError> {
        self.finish();
        Ok(())
    }
}
impl<'a> ser::SerializeTupleStruct for Compound<'a> {
    type Ok = ();
    type Error = TraceError;
    fn serialize_field<T: ?Sized + Serialize>(&mut self, v: &T) -> Result<(), TraceError> {
        self.elem(v)
    }
    fn end(self) -> Result<(), TraceError> {
        self.finish();
        Ok(())
    }
}
impl<'a> ser::SerializeTupleVariant for Compound<'a> {
    type Ok = ();
    type Error = TraceError;
    fn serialize_field<T: ?Sized + Serialize>(&mut self, v: &T) -> Result<(), TraceError> {
        self.elem(v)
    }
    fn end(self) -> Result<(), TraceError> {
        self.finish();
        Ok(())
    }
}
impl<'a> ser::SerializeMap for Compound<'a> {
    type Ok = ();
    type Error = TraceError;
    fn serialize_key<T: ?Sized + Serialize>(&mut self, v: &T) -> Result<(), TraceError> {
        self.tr.path.push(format!("[k{}]", self.idx));
        let r = v.serialize(&mut *self.tr);
        self.tr.path.pop();
        r
    }
    fn serialize_value<T: ?Sized + Serialize>(&mut self, v: &T) -> Result<(), TraceError> {
        self.tr.path.push(format!("[v{}]", self.idx));
        self.idx += 1;
        let r = v.serialize(&mut *self.tr);
        self.tr.path.pop();
        r
    }
    fn end(self) -> Result<(), TraceError> {
        Ok(())
    }
}
impl<'a> ser::SerializeStruct for Compound<'a> {
    type Ok = ();
    type Error = TraceError;
    fn serialize_field<T: ?Sized + Serialize>(
        &mut self,
        key: &'static str,
        v: &T,
    ) -> Result<(), TraceError> {
        self.field(key, v)
    }
    fn end(self) -> Result<(), TraceError> {
        self.finish();
        Ok(())
    }
}
impl<'a> ser::SerializeStructVariant for Compound<'a> {
    type Ok = ();
    type Error = TraceError;
    fn serialize_field<T: ?Sized + Serialize>(
        &mut self,
        key: &'static str,
        v: &T,
    ) -> Result<(), TraceError> {
        self.field(key, v)
    }
    fn end(self) -> Result<(), TraceError> {
        self.finish();
        Ok(())
    }
}

/// Trace a value. The byte output is checked against `bincode::serialize`; a mismatch means the
/// tracer no longer mirrors the wire format and is a harness error, never a property violation.
pub fn trace<T: Serialize>(v: &T) -> Trace {
    let mut tr = Tr::default();
    if let Err(e) = v.serialize(&mut tr) {
        crate::harness_error(&format!("atom tracer failed: {}", e));
    }
    let real = match bincode::serialize(v) {
        Ok(b) => b,
        Err(e) => crate::harness_error(&format!("bincode::serialize failed: {}", e)),
    };
    if real != tr.out {
        crate::harness_error("atom tracer output differs from bincode::serialize");
    }
    // spans must tile the output exactly
    let mut pos = 0;
    for a in &tr.atoms {
        if a.off != pos {
            crate::harness_error("atom spans do not tile the encoding");
        }
        pos += a.len;
    }
    if pos != tr.out.len() {
        crate::harness_error("atom spans do not cover the encoding");
    }
    Trace {
        bytes: tr.out,
        atoms: tr.atoms,
    }
}

pub fn encode<T: Serialize>(v: &T) -> Vec<u8> {
    match bincode::serialize(v) {
        Ok(b) => b,
        Err(e) => crate::harness_error(&format!("bincode::serialize failed: {}", e)),
    }
}
