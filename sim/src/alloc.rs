//! Tracking, capped global allocator. Inert (one relaxed load per call) unless enabled, which
//! only the decode worker process does.

use std::alloc::{GlobalAlloc, Layout, System};
use std::sync::atomic::{AtomicBool, AtomicUsize, Ordering};

pub struct TrackAlloc;

static TRACK: AtomicBool = AtomicBool::new(false);
static MAX_REQ: AtomicUsize = AtomicUsize::new(0);
static CAP: AtomicUsize = AtomicUsize::new(usize::MAX);

pub fn enable_tracking(cap: usize) {
    CAP.store(cap, Ordering::SeqCst);
    TRACK.store(true, Ordering::SeqCst);
}
pub fn reset_max() {
    MAX_REQ.store(0, Ordering::SeqCst);
}
pub fn max_request() -> usize {
    MAX_REQ.load(Ordering::SeqCst)
}

#[inline]
fn note(size: usize) -> bool {
    if TRACK.load(Ordering::Relaxed) {
        MAX_REQ.fetch_max(size, Ordering::Relaxed);
        if size > CAP.load(Ordering::Relaxed) {
            return false;
        }
    }
    true
}

unsafe impl GlobalAlloc for TrackAlloc {
    unsafe fn alloc(&self, layout: Layout) -> *mut u8 {
        if !note(layout.size()) {
            return std::ptr::null_mut();
        }
        System.alloc(layout)
    }
    unsafe fn alloc_zeroed(&self, layout: Layout) -> *mut u8 {
        if !note(layout.size()) {
            return std::ptr::null_mut();
        }
        System.alloc_zeroed(layout)
    }
    unsafe fn dealloc(&self, ptr: *mut u8, layout: Layout) {
        System.dealloc(ptr, layout)
    }
    unsafe fn realloc(&self, ptr: *mut u8, layout: Layout, new_size: usize) -> *mut u8 {
        if !note(new_size) {
            return std::ptr::null_mut();
        }
        System.realloc(ptr, layout, new_size)
    }
}
