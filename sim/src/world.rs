//! Layer A: the zkAbacus world. Real customers and merchants, a stub network / disk / entropy
//! source, a Byzantine merchant wrapper holding the merchant's secret key, an adversarial
//! carrier for lock messages, and an ideal ledger. One run = one `Plan`, executed as a
//! single-threaded discrete-event loop whose every choice is in the plan.

use crate::atoms::{self, Trace};
use crate::driver::Outcome;
use crate::mctx::{merchant, MerchantCtx};
use crate::refc;
use crate::rng::{mix, EntropyFault, SimRng};
use bls12_381::Scalar;
use serde::{Deserialize, Serialize};
use std::collections::{BTreeMap, BTreeSet};
use zkabacus_crypto as za;
use zkabacus_crypto::customer::{Inactive, Locked, LockMessage, Ready, Requested, Started};
use zkabacus_crypto::Verification;

pub const MAXB: i128 = i64::MAX as i128;

// ------------------------------------------------------------------ plan

#[derive(Serialize, Deserialize, Clone, Debug, PartialEq)]
#[serde(tag = "k")]
pub enum ReplyFault {
    /// two random group elements
    Garbage,
    /// blind signature (with the real secret key) on the expected commitment shifted by
    /// `delta` in message slot `slot` (0 id, 1 nonce/close tag, 2 lock, 3 customer, 4 merchant balance)
    Shift { slot: usize, delta: i64 },
    /// blind signature (real key) on the expected close state with another constant in the tag
    /// slot: the CLOSE bytes in another limb or byte order, 0, 1, -CLOSE, 2*CLOSE (a customer that
    /// accepts a "legacy" or mis-encoded tag releases its revocation secret against it)
    AltTag { variant: u8 },
    /// a valid reply of the other type (pay token where a closing signature is due, or vice versa)
    WrongType,
    /// the right commitment signed under another merchant's key
    OtherKey,
    /// an earlier honest reply recorded in this run (other channel / payment / stage)
    Replay { pick: u64 },
    /// the all-identity signature as bytes (must not decode)
    IdentityBytes,
    /// the all-identity signature as an in-process value (merchant's entropy returns zero)
    IdentityValue,
}

#[derive(Serialize, Deserialize, Clone, Debug, PartialEq)]
#[serde(tag = "k")]
pub enum LockFault {
    /// the revocation pair of the *new* state with the right blinding factor
    NewStatePair,
    /// a freshly generated pair with the right blinding factor
    FreshPair,
    /// a pair recorded from another payment / channel with the right blinding factor
    ForeignPair { pick: u64 },
    /// the right pair with a wrong blinding factor
    WrongBf { mode: u8 },
    /// wire corruption of the pair: 0 lock, 1 secret, 2 index
    Corrupt { field: u8 },
    /// the right SECRET under another index whose digest is also a canonical scalar: a well-formed
    /// hash pair (it decodes) whose lock is not the committed one, with the right blinding factor
    OtherIndex,
    /// a foreign / fresh pair with the blinding factor shifted by (right lock - its lock): opens the
    /// commitment if the two generators of the commitment parameters are related (g = h)
    CompensatedBf { pick: u64 },
}

#[derive(Serialize, Deserialize, Clone, Debug, PartialEq)]
pub struct PayPlan {
    pub amount: i64,
    #[serde(default)]
    pub cs_faults: Vec<ReplyFault>,
    #[serde(default)]
    pub lock_faults: Vec<LockFault>,
    #[serde(default)]
    pub pt_faults: Vec<ReplyFault>,
}

#[derive(Serialize, Deserialize, Clone, Debug, PartialEq)]
pub struct ChanPlan {
    pub merchant: usize,
    pub cust_bal: u64,
    pub merch_bal: u64,
    #[serde(default)]
    pub est_cs_faults: Vec<ReplyFault>,
    #[serde(default)]
    pub est_pt_faults: Vec<ReplyFault>,
    pub payments: Vec<PayPlan>,
    /// stop and close after `stop_at` payments have completed, in stage `stop_stage`
    /// ("inactive" only with stop_at == 0; "ready"; "started"/"locked": inside payment `stop_at`)
    pub stop_at: usize,
    pub stop_stage: String,
}

#[derive(Serialize, Deserialize, Clone, Debug, PartialEq)]
pub struct Plan {
    pub seed: u64,
    pub merchants: Vec<String>,
    pub channels: Vec<ChanPlan>,
    /// interleaving choices: at tick t the scheduler advances the (order[t % len] mod #unfinished)-th unfinished channel
    pub order: Vec<u8>,
    /// encode / decode every hop and every stored stage
    pub wire: bool,
    /// customer crash-and-restore points: "none", "every", "after-refusal", or explicit (channel, step) pairs
    pub crash: String,
    #[serde(default)]
    pub crash_steps: Vec<(usize, usize)>,
    /// entropy faults on the customer's generators
    #[serde(default)]
    pub entropy: Vec<EntropyPlan>,
}

/// One entropy fault: in channel `chan`, payment `pay` (-1 establish, 9999 close), operation
/// "new" | "start" | "close", the draws `at .. at+width` return zeros ("zeros"), bytes that
/// reduce to the close tag ("closetag"), or what the previous draw returned ("repeat").
#[derive(Serialize, Deserialize, Clone, Debug, PartialEq)]
pub struct EntropyPlan {
    pub chan: usize,
    pub pay: i32,
    pub op: String,
    pub at: usize,
    pub width: usize,
    #[serde(default)]
    pub kind: String,
}

// ------------------------------------------------------------------ history

#[derive(Clone, Copy, Debug, PartialEq, Eq)]
pub enum Dir {
    C2M,
    M2C,
    Local,
}

#[derive(Clone, Debug)]
pub struct Ev {
    pub seq: u64,
    pub chan: usize,
    pub pay: i32,
    pub kind: String,
    pub dir: Dir,
    pub trace: Option<Trace>,
    pub outcome: String,
    pub honest: bool,
    /// customer stage image right after the step (for customer events)
    pub image_after: Option<(String, Trace)>,
    /// customer stage image right before the step (close events)
    pub image_before: Option<(String, Trace)>,
    /// for proof messages: the challenge the merchant derived when it verified them (hook)
    pub challenge: Option<Scalar>,
}

pub struct ChanResult {
    pub cid: [u8; 32],
    pub merchant: usize,
    pub final_cust: i128,
    pub final_merch: i128,
    pub closing: Option<Trace>,
    pub close_stage: String,
    pub payments_completed: usize,
    pub revealed_locks: BTreeSet<[u8; 32]>,
}

pub struct RunResult {
    pub history: Vec<Ev>,
    pub chans: Vec<ChanResult>,
}

// ------------------------------------------------------------------ customer stage

pub enum Stage {
    Empty,
    Requested(Requested),
    Inactive(Inactive),
    Ready(Ready),
    Started(Started),
    Locked(Locked),
    Closed,
}

impl Stage {
    pub fn name(&self) -> &'static str {
        match self {
            Stage::Empty => "empty",
            Stage::Requested(_) => "requested",
            Stage::Inactive(_) => "inactive",
            Stage::Ready(_) => "ready",
            Stage::Started(_) => "started",
            Stage::Locked(_) => "locked",
            Stage::Closed => "closed",
        }
    }
    pub fn trace(&self) -> Option<Trace> {
        match self {
            Stage::Requested(s) => Some(atoms::trace(s)),
            Stage::Inactive(s) => Some(atoms::trace(s)),
            Stage::Ready(s) => Some(atoms::trace(s)),
            Stage::Started(s) => Some(atoms::trace(s)),
            Stage::Locked(s) => Some(atoms::trace(s)),
            _ => None,
        }
    }
    pub fn image(&self) -> Vec<u8> {
        self.trace().map(|t| t.bytes).unwrap_or_default()
    }
    pub fn restore(name: &str, b: &[u8]) -> Result<Stage, String> {
        Ok(match name {
            "requested" => Stage::Requested(bincode::deserialize(b).map_err(|e| e.to_string())?),
            "inactive" => Stage::Inactive(bincode::deserialize(b).map_err(|e| e.to_string())?),
            "ready" => Stage::Ready(bincode::deserialize(b).map_err(|e| e.to_string())?),
            "started" => Stage::Started(bincode::deserialize(b).map_err(|e| e.to_string())?),
            "locked" => Stage::Locked(bincode::deserialize(b).map_err(|e| e.to_string())?),
            "empty" => Stage::Empty,
            "closed" => Stage::Closed,
            _ => return Err("unknown stage".into()),
        })
    }
    /// The same through an `io::Read` source (a file read back in pieces).
    pub fn restore_from(name: &str, r: &mut dyn std::io::Read) -> Result<Stage, String> {
        Ok(match name {
            "requested" => Stage::Requested(bincode::deserialize_from(r).map_err(|e| e.to_string())?),
            "inactive" => Stage::Inactive(bincode::deserialize_from(r).map_err(|e| e.to_string())?),
            "ready" => Stage::Ready(bincode::deserialize_from(r).map_err(|e| e.to_string())?),
            "started" => Stage::Started(bincode::deserialize_from(r).map_err(|e| e.to_string())?),
            "locked" => Stage::Locked(bincode::deserialize_from(r).map_err(|e| e.to_string())?),
            _ => return Err("unknown stage".into()),
        })
    }
    pub fn balances(&self) -> Option<(u64, u64)> {
        match self {
            Stage::Requested(s) => Some((s.customer_balance().into_inner(), s.merchant_balance().into_inner())),
            Stage::Inactive(s) => Some((s.customer_balance().into_inner(), s.merchant_balance().into_inner())),
            Stage::Ready(s) => Some((s.customer_balance().into_inner(), s.merchant_balance().into_inner())),
            Stage::Started(s) => Some((s.customer_balance().into_inner(), s.merchant_balance().into_inner())),
            Stage::Locked(s) => Some((s.customer_balance().into_inner(), s.merchant_balance().into_inner())),
            _ => None,
        }
    }
    pub fn cid(&self) -> Option<[u8; 32]> {
        match self {
            Stage::Requested(s) => Some(s.channel_id().to_bytes()),
            Stage::Inactive(s) => Some(s.channel_id().to_bytes()),
            Stage::Ready(s) => Some(s.channel_id().to_bytes()),
            Stage::Started(s) => Some(s.channel_id().to_bytes()),
            Stage::Locked(s) => Some(s.channel_id().to_bytes()),
            _ => None,
        }
    }
}

// ------------------------------------------------------------------ steps

#[derive(Clone, Debug)]
enum Step {
    New,
    Init,
    CsReply { pay: i32, fault: Option<ReplyFault> },
    Activate,
    PtReply { pay: i32, fault: Option<ReplyFault> },
    Start { pay: usize },
    Allow { pay: usize },
    Lock { pay: usize, fault: Option<LockFault> },
    Close,
}

fn expand(c: &ChanPlan) -> Vec<Step> {
    let mut s = vec![Step::New, Step::Init];
    for f in &c.est_cs_faults {
        s.push(Step::CsReply { pay: -1, fault: Some(f.clone()) });
    }
    s.push(Step::CsReply { pay: -1, fault: None });
    s.push(Step::Activate);
    for f in &c.est_pt_faults {
        s.push(Step::PtReply { pay: -1, fault: Some(f.clone()) });
    }
    if c.stop_stage == "inactive" {
        s.push(Step::Close);
        return s;
    }
    s.push(Step::PtReply { pay: -1, fault: None });
    for (p, pp) in c.payments.iter().enumerate() {
        if p == c.stop_at && c.stop_stage == "ready" {
            s.push(Step::Close);
            return s;
        }
        if p > c.stop_at {
            break;
        }
        s.push(Step::Start { pay: p });
        s.push(Step::Allow { pay: p });
        for f in &pp.cs_faults {
            s.push(Step::CsReply { pay: p as i32, fault: Some(f.clone()) });
        }
        if p == c.stop_at && c.stop_stage == "started" {
            s.push(Step::Close);
            return s;
        }
        s.push(Step::CsReply { pay: p as i32, fault: None });
        for f in &pp.lock_faults {
            s.push(Step::Lock { pay: p, fault: Some(f.clone()) });
        }
        s.push(Step::Lock { pay: p, fault: None });
        for f in &pp.pt_faults {
            s.push(Step::PtReply { pay: p as i32, fault: Some(f.clone()) });
        }
        if p == c.stop_at && c.stop_stage == "locked" {
            s.push(Step::Close);
            return s;
        }
        s.push(Step::PtReply { pay: p as i32, fault: None });
    }
    s.push(Step::Close);
    s
}

// ------------------------------------------------------------------ channel runtime

struct Chan {
    plan: ChanPlan,
    m: &'static MerchantCtx,
    steps: Vec<Step>,
    pc: usize,
    stage: Stage,
    cid: Option<za::ChannelId>,
    // ledger
    l_cust: i128,
    l_merch: i128,
    l_pending: Option<i64>,
    revealed_locks: BTreeSet<[u8; 32]>,
    // merchant side (per-channel application state of the stub)
    vbs: Option<za::VerifiedBlindedState>,
    unrevoked: Option<za::merchant::Unrevoked<'static>>,
    // in flight
    last_proof: Option<Trace>,
    last_proof_kind: &'static str,
    last_nonce: Option<Vec<u8>>,
    held_cs: Option<(za::ClosingSignature, Vec<u8>)>,
    held_pt: Option<(za::PayToken, Vec<u8>)>,
    lockmsg: Option<LockMessage>,
    pend_est: Option<za::EstablishProof>,
    pend_pay: Option<(za::Nonce, za::PayProof)>,
    skip_pay: Option<usize>,
    closing: Option<Trace>,
    close_stage: String,
    last_proof_event: Option<usize>,
    payments_completed: usize,
    last_fault: String,
    last_outcome: String,
    customer_steps: usize,
    refused_just_now: bool,
}

pub struct World<'a> {
    pub plan: &'a Plan,
    pub o: &'a mut Outcome,
    mctx: Vec<&'static MerchantCtx>,
    chans: Vec<Chan>,
    pub history: Vec<Ev>,
    seq: u64,
    replies: Vec<(usize, i32, &'static str, Vec<u8>)>, // recorded honest replies: (chan, pay, kind, bytes)
    lockmsgs: Vec<(usize, usize, Vec<u8>, Vec<u8>)>,   // recorded lock messages: (chan, pay, pair bytes, bf bytes)
    seen_ids: BTreeSet<[u8; 32]>,
    seen_nonces: BTreeSet<Vec<u8>>,
    seen_locks: BTreeSet<[u8; 32]>,
    shape: u64,
}

fn ctx_for(seed: u64, chan: usize, pay: i32) -> za::Context {
    za::Context::new(format!("zksim-session/{}/{}/{}", seed, chan, pay).as_bytes())
}

fn amount_of(a: i64) -> Option<za::PaymentAmount> {
    if a == i64::MIN {
        return None;
    }
    let r = if a >= 0 { za::PaymentAmount::pay_merchant(a as u64) } else { za::PaymentAmount::pay_customer((-a) as u64) };
    r.ok()
}

fn verified(v: Verification) -> bool {
    matches!(v, Verification::Verified)
}

impl<'a> World<'a> {
    pub fn new(plan: &'a Plan, o: &'a mut Outcome) -> World<'a> {
        if plan.merchants.is_empty() || plan.channels.is_empty() {
            crate::harness_error("world: plan without merchants or channels");
        }
        let mctx: Vec<&'static MerchantCtx> = plan.merchants.iter().map(|s| merchant(s)).collect();
        let mut chans = Vec::new();
        for c in &plan.channels {
            if c.merchant >= mctx.len() {
                crate::harness_error("world: channel refers to a merchant that is not in the plan");
            }
            chans.push(Chan {
                plan: c.clone(),
                m: mctx[c.merchant],
                steps: expand(c),
                pc: 0,
                stage: Stage::Empty,
                cid: None,
                l_cust: c.cust_bal as i128,
                l_merch: c.merch_bal as i128,
                l_pending: None,
                revealed_locks: BTreeSet::new(),
                vbs: None,
                unrevoked: None,
                last_proof: None,
                last_proof_kind: "",
                last_nonce: None,
                held_cs: None,
                held_pt: None,
                lockmsg: None,
                pend_est: None,
                pend_pay: None,
                skip_pay: None,
                closing: None,
                close_stage: String::new(),
                last_proof_event: None,
                payments_completed: 0,
                last_fault: "none".into(),
                last_outcome: "none".into(),
                customer_steps: 0,
                refused_just_now: false,
            });
        }
        World {
            plan,
            o,
            mctx,
            chans,
            history: Vec::new(),
            seq: 0,
            replies: Vec::new(),
            lockmsgs: Vec::new(),
            seen_ids: BTreeSet::new(),
            seen_nonces: BTreeSet::new(),
            seen_locks: BTreeSet::new(),
            shape: 0,
        }
    }

    fn rng(&self, chan: usize, pay: i32, what: &str) -> SimRng {
        SimRng::new(self.plan.seed, &format!("world/c{}/p{}/{}", chan, pay, what))
    }

    /// The customer's generator for one operation, with the plan's entropy faults applied.
    fn customer_rng(&mut self, chan: usize, pay: i32, op: &str) -> SimRng {
        let mut r = self.rng(chan, pay, &format!("customer/{}", op));
        for e in &self.plan.entropy {
            if e.chan == chan && e.pay == pay && e.op == op {
                for i in e.at..e.at + e.width {
                    let f = if e.kind == "repeat" {
                        EntropyFault::RepeatPrevious
                    } else if e.kind == "fail" {
                        EntropyFault::Fail
                    } else if e.kind == "longindex" {
                        // a revocation secret whose index search runs to 33 (see C05)
                        let mut b = Scalar::from(640647005u64).to_bytes().to_vec();
                        b.extend_from_slice(&[0u8; 32]);
                        EntropyFault::Bytes(b)
                    } else if e.kind == "closetag" {
                        let mut b = refc::scb(&refc::close_tag()).to_vec();
                        b.extend_from_slice(&[0u8; 32]);
                        EntropyFault::Bytes(b)
                    } else {
                        EntropyFault::Zeros
                    };
                    r.faults.insert(i, f);
                }
            }
        }
        r
    }

    fn note_entropy(&mut self, r: &SimRng) {
        if r.faults_fired > 0 {
            self.o.add("fault.entropy.customer-zero-draw", r.faults_fired as u64);
        }
    }

    fn log(&mut self, chan: usize, pay: i32, kind: &str, dir: Dir, trace: Option<Trace>, outcome: &str, honest: bool) -> usize {
        self.seq += 1;
        self.o.events += 1;
        self.o.bump(&format!("event.{}", kind));
        self.shape = mix(&[self.shape, crate::hash_str(kind), crate::hash_str(outcome), chan as u64]);
        self.history.push(Ev {
            seq: self.seq,
            chan,
            pay,
            kind: kind.to_string(),
            dir,
            trace,
            outcome: outcome.to_string(),
            honest,
            image_after: None,
            image_before: None,
            challenge: None,
        });
        self.history.len() - 1
    }

    fn abstract_state(&self, ci: usize) -> u64 {
        let c = &self.chans[ci];
        mix(&[
            crate::hash_str(c.stage.name()),
            c.unrevoked.is_some() as u64,
            c.revealed_locks.len().min(3) as u64,
            crate::hash_str(&c.last_fault),
            crate::hash_str(&c.last_outcome),
        ])
    }

    /// crash-and-restore (or, in wire mode, plain store-and-reload) of the customer stage
    /// The customer's copy of the merchant's public configuration: as built in process, or - when
    /// the run encodes every hop or restores the customer from storage - as decoded from bytes.
    fn cust_cfg(&self, m: &'static crate::mctx::MerchantCtx) -> &'static za::customer::Config {
        if self.plan.wire || self.plan.crash != "none" {
            &m.ccfg_wire
        } else {
            &m.ccfg
        }
    }

    fn persist_point(&mut self, ci: usize) {
        let step_no = self.chans[ci].customer_steps;
        self.chans[ci].customer_steps += 1;
        let crash = match self.plan.crash.as_str() {
            "none" => false,
            "every" => true,
            "after-refusal" => self.chans[ci].refused_just_now,
            "steps" => self.plan.crash_steps.iter().any(|(c, s)| *c == ci && *s == step_no),
            _ => crate::harness_error("world: bad crash mode"),
        };
        if !(crash || self.plan.wire) {
            return;
        }
        let name = self.chans[ci].stage.name();
        if matches!(name, "empty" | "closed") {
            return;
        }
        let image = self.chans[ci].stage.image();
        if crash {
            self.o.bump("fault.crash_restore");
            self.o.bump(&format!("probe.crash_in_{}", name));
            if self.chans[ci].refused_just_now {
                self.o.bump("probe.crash_right_after_refusal");
            }
        }
        match Stage::restore(name, &image) {
            Ok(st) => {
                let again = st.image();
                if again != image {
                    self.o.violate(
                        "restored-image-differs",
                        &format!("customer::{}", name),
                        format!("channel {} step {}: encode(decode(image)) differs from image", ci, step_no),
                    );
                }
                self.chans[ci].stage = st;
            }
            Err(e) => {
                self.o.violate(
                    "stored-stage-rejected",
                    &format!("customer::{}", name),
                    format!("channel {} step {}: the stage's own image does not decode: {}", ci, step_no, e),
                );
            }
        }
        // the storage medium may be a stream: the image read back through `io::Read` in short
        // pieces with interrupted calls in between must give the same stage
        if crash {
            use crate::props::c16::{FaultyRead, ReadOp};
            let mut sch = crate::rng::Sched::new(self.plan.seed, &format!("world/disk/c{}/s{}", ci, step_no));
            let mut script = Vec::new();
            for _ in 0..sch.usize(24) {
                script.push(if sch.chance(1, 4) { ReadOp::Interrupted } else { ReadOp::Short(1 + sch.usize(40) as u32) });
            }
            let mut fr = FaultyRead::new(&image, script);
            self.o.bump("fault.disk.stream-restore-short-reads");
            match Stage::restore_from(name, &mut fr) {
                Ok(st2) => {
                    if st2.image() != image {
                        self.o.violate("restored-image-differs", &format!("customer::{}(stream)", name), format!("channel {} step {}: the stage read back from a stream re-encodes differently", ci, step_no));
                    }
                }
                Err(e) => {
                    // only a finding if the slice decode of the same bytes worked
                    if Stage::restore(name, &image).is_ok() {
                        self.o.violate("stored-stage-rejected", &format!("customer::{}(stream)", name), format!("channel {} step {}: the image decodes from a slice but not from a stream: {}", ci, step_no, e));
                    }
                }
            }
        }
        // a truncated image never decodes
        if crash && image.len() > 1 {
            let cut = image.len() - 1 - (self.seq as usize % image.len().min(40));
            if Stage::restore(name, &image[..cut]).is_ok() {
                self.o.violate(
                    "truncated-image-accepted",
                    &format!("customer::{}", name),
                    format!("channel {}: a stage image truncated to {} of {} bytes decodes", ci, cut, image.len()),
                );
            }
        }
    }

    fn check_ledger(&mut self, ci: usize, whence: &str) {
        let c = &self.chans[ci];
        let (ec, em) = match c.stage.name() {
            "locked" => match c.l_pending {
                Some(a) => (c.l_cust - a as i128, c.l_merch + a as i128),
                None => (c.l_cust, c.l_merch),
            },
            _ => (c.l_cust, c.l_merch),
        };
        if let Some((rc, rm)) = c.stage.balances() {
            if rc as i128 != ec || rm as i128 != em {
                let d = format!(
                    "channel {} in stage {} after {}: reports ({}, {}), ideal ledger has ({}, {})",
                    ci,
                    c.stage.name(),
                    whence,
                    rc,
                    rm,
                    ec,
                    em
                );
                let site = format!("customer::{}", c.stage.name());
                self.o.violate("balance-differs-from-ledger", &site, d);
            }
            if rc as i128 + rm as i128 != c.plan.cust_bal as i128 + c.plan.merch_bal as i128 {
                let site = format!("customer::{}", c.stage.name());
                self.o.violate("balance-sum-not-conserved", &site, format!("channel {} after {}", ci, whence));
            }
        }
        if let (Some(a), Some(b)) = (c.stage.cid(), c.cid) {
            if a != b.to_bytes() {
                let site = format!("customer::{}", c.stage.name());
                self.o.violate("channel-id-changed", &site, format!("channel {} after {}", ci, whence));
            }
        }
    }

    // -------------------------------------------------------------- Byzantine merchant

    /// Commitment the next reply is expected to sign, and the commitment of the other kind.
    fn commitments(&self, ci: usize, want_close: bool) -> (bls12_381::G1Projective, bls12_381::G1Projective) {
        let t = match &self.chans[ci].last_proof {
            Some(t) => t,
            None => crate::harness_error("world: no proof recorded for this channel"),
        };
        let close = refc::g1(t.get("close_state_proof.commitment_proof.commitment"));
        let state = refc::g1(t.get("state_proof.commitment_proof.commitment"));
        if want_close {
            (close, state)
        } else {
            (state, close)
        }
    }

    fn faulty_reply_bytes(&mut self, ci: usize, pay: i32, want_close: bool, f: &ReplyFault, k: usize) -> Option<Vec<u8>> {
        let m = self.chans[ci].m;
        let mut sch = crate::rng::Sched::new(self.plan.seed, &format!("world/byz/c{}/p{}/{}/{}", ci, pay, want_close, k));
        let (exp, other) = self.commitments(ci, want_close);
        let u = refc::rand_nonzero(&mut sch);
        Some(match f {
            ReplyFault::Garbage => refc::sig_bytes(&(refc::rand_g1(&mut sch), refc::rand_g1(&mut sch))),
            ReplyFault::Shift { slot, delta } => {
                let d = if *delta == 0 { 1 } else { *delta };
                let c = exp + m.pk.y1s[*slot % 5] * refc::int_scalar(d as i128);
                refc::sig_bytes(&refc::blind_sign(&m.pk, &m.sk, &c, &u))
            }
            ReplyFault::AltTag { variant } => {
                let w = u64::from_le_bytes(*b"\0\0\0CLOSE");
                let wb = u64::from_be_bytes(*b"\0\0\0CLOSE");
                let tag = refc::close_tag();
                let alts = [
                    Scalar::from_raw([w, 0, 0, 0]),
                    Scalar::from_raw([0, w, 0, 0]),
                    Scalar::from_raw([0, 0, w, 0]),
                    Scalar::from_raw([wb, 0, 0, 0]),
                    Scalar::from_raw([0, 0, 0, wb]),
                    Scalar::zero(),
                    Scalar::one(),
                    -tag,
                    tag + tag,
                    tag + Scalar::one(),
                ];
                let alt = alts[*variant as usize % alts.len()];
                let c = exp + m.pk.y1s[1] * (alt - tag);
                refc::sig_bytes(&refc::blind_sign(&m.pk, &m.sk, &c, &u))
            }
            ReplyFault::WrongType => refc::sig_bytes(&refc::blind_sign(&m.pk, &m.sk, &other, &u)),
            ReplyFault::OtherKey => {
                let om = if self.mctx.len() > 1 {
                    self.mctx[(self.chans[ci].plan.merchant + 1) % self.mctx.len()]
                } else {
                    merchant("777001")
                };
                refc::sig_bytes(&refc::blind_sign(&om.pk, &om.sk, &exp, &u))
            }
            ReplyFault::Replay { pick } => {
                let kind = if want_close { "cs" } else { "pt" };
                let cands: Vec<&Vec<u8>> = self
                    .replies
                    .iter()
                    .filter(|(c, p, kd, _)| !(*c == ci && *p == pay && *kd == kind))
                    .map(|(_, _, _, b)| b)
                    .collect();
                if cands.is_empty() {
                    self.o.bump("probe.replay_fell_back_to_garbage");
                    refc::sig_bytes(&(refc::rand_g1(&mut sch), refc::rand_g1(&mut sch)))
                } else {
                    self.o.bump("probe.replay_had_material");
                    cands[(*pick as usize) % cands.len()].clone()
                }
            }
            ReplyFault::IdentityBytes => {
                let mut b = refc::bad::g1_identity().to_vec();
                b.extend_from_slice(&refc::bad::g1_identity());
                b
            }
            ReplyFault::IdentityValue => return None,
        })
    }

    fn zero_rng(&self) -> SimRng {
        let mut f = BTreeMap::new();
        for i in 0..8 {
            f.insert(i, EntropyFault::Zeros);
        }
        SimRng::with_faults(self.plan.seed, "world/zero-entropy", f)
    }

    /// The identity closing signature as an in-process value: the real merchant call re-executed
    /// on the recorded proof bytes with an entropy source that returns zeros.
    fn identity_closing_signature(&mut self, ci: usize, pay: i32) -> Option<za::ClosingSignature> {
        let m = self.chans[ci].m;
        let t = self.chans[ci].last_proof.clone()?;
        let mut z = self.zero_rng();
        if self.chans[ci].last_proof_kind == "establish" {
            let proof: za::EstablishProof = bincode::deserialize(&t.bytes).ok()?;
            let c = &self.chans[ci];
            let cb = za::CustomerBalance::try_new(c.plan.cust_bal).ok()?;
            let mb = za::MerchantBalance::try_new(c.plan.merch_bal).ok()?;
            let cid = c.cid?;
            m.cfg.initialize(&mut z, &cid, cb, mb, proof, &ctx_for(self.plan.seed, ci, -1)).map(|(cs, _)| cs)
        } else {
            let proof: za::PayProof = bincode::deserialize(&t.bytes).ok()?;
            let nonce: za::Nonce = bincode::deserialize(self.chans[ci].last_nonce.as_ref()?).ok()?;
            let amt = amount_of(self.chans[ci].plan.payments[pay as usize].amount)?;
            m.cfg
                .allow_payment(&mut z, amt, &nonce, proof, &ctx_for(self.plan.seed, ci, pay))
                .map(|(_, cs)| cs)
        }
    }

    fn identity_pay_token(&mut self, ci: usize, pay: i32) -> Option<za::PayToken> {
        let m = self.chans[ci].m;
        let t = self.chans[ci].last_proof.clone()?;
        let mut z = self.zero_rng();
        let mut healthy = self.rng(ci, pay, "identity-pay-token/verify");
        if self.chans[ci].last_proof_kind == "establish" {
            let proof: za::EstablishProof = bincode::deserialize(&t.bytes).ok()?;
            let c = &self.chans[ci];
            let cb = za::CustomerBalance::try_new(c.plan.cust_bal).ok()?;
            let mb = za::MerchantBalance::try_new(c.plan.merch_bal).ok()?;
            let cid = c.cid?;
            let (_, vbs) = m.cfg.initialize(&mut healthy, &cid, cb, mb, proof, &ctx_for(self.plan.seed, ci, -1))?;
            Some(m.cfg.activate(&mut z, vbs))
        } else {
            let proof: za::PayProof = bincode::deserialize(&t.bytes).ok()?;
            let nonce: za::Nonce = bincode::deserialize(self.chans[ci].last_nonce.as_ref()?).ok()?;
            let amt = amount_of(self.chans[ci].plan.payments[pay as usize].amount)?;
            let (unrev, _) = m.cfg.allow_payment(&mut healthy, amt, &nonce, proof, &ctx_for(self.plan.seed, ci, pay))?;
            // the right pair is in the recorded lock message of this payment
            let (pb, bb) = self
                .lockmsgs
                .iter()
                .find(|(c, p, _, _)| *c == ci && *p == pay as usize)
                .map(|(_, _, a, b)| (a.clone(), b.clone()))?;
            let pair: za::revlock::RevocationPair = bincode::deserialize(&pb).ok()?;
            let bf: za::revlock::RevocationLockBlindingFactor = bincode::deserialize(&bb).ok()?;
            unrev.complete_payment(&mut z, &pair, &bf).ok()
        }
    }

    // -------------------------------------------------------------- steps

    fn step(&mut self, ci: usize) {
        let step = self.chans[ci].steps[self.chans[ci].pc].clone();
        self.chans[ci].pc += 1;
        // skip the remaining steps of a payment whose start was refused
        if let Some(sp) = self.chans[ci].skip_pay {
            let of_pay = match &step {
                Step::Allow { pay } | Step::Lock { pay, .. } => Some(*pay),
                Step::CsReply { pay, .. } | Step::PtReply { pay, .. } if *pay >= 0 => Some(*pay as usize),
                _ => None,
            };
            if of_pay == Some(sp) {
                return;
            }
        }
        let before = self.abstract_state(ci);
        match step {
            Step::New => self.do_new(ci),
            Step::Init => self.do_init(ci),
            Step::CsReply { pay, fault } => self.do_cs_reply(ci, pay, fault),
            Step::Activate => self.do_activate(ci),
            Step::PtReply { pay, fault } => self.do_pt_reply(ci, pay, fault),
            Step::Start { pay } => self.do_start(ci, pay),
            Step::Allow { pay } => self.do_allow(ci, pay),
            Step::Lock { pay, fault } => self.do_lock(ci, pay, fault),
            Step::Close => self.do_close(ci),
        }
        let after = self.abstract_state(ci);
        self.o.states.insert(after);
        self.o.transitions.insert(mix(&[before, after, self.history.last().map(|e| crate::hash_str(&e.kind)).unwrap_or(0)]));
    }

    fn do_new(&mut self, ci: usize) {
        let m = self.chans[ci].m;
        let mut rng = self.rng(ci, -1, "new");
        let mr = za::MerchantRandomness::new(&mut rng);
        let cr = za::CustomerRandomness::new(&mut rng);
        let cid = za::ChannelId::new(
            mr,
            cr,
            m.cfg.signing_keypair().public_key(),
            format!("merchant-account-{}", self.chans[ci].plan.merchant).as_bytes(),
            format!("customer-account-{}-{}", self.plan.seed, ci).as_bytes(),
        );
        // the id travels out of band as text and is parsed on arrival
        let cid = if self.plan.wire {
            match cid.to_string().parse::<za::ChannelId>() {
                Ok(c) => c,
                Err(e) => {
                    self.o.violate("channel-id-text-roundtrip", "ChannelId", format!("own text form does not parse: {}", e));
                    cid
                }
            }
        } else {
            cid
        };
        if !self.seen_ids.insert(cid.to_bytes()) {
            self.o.violate("channel-id-not-fresh", "ChannelId::new", format!("channel {} got an id already used in this run", ci));
        }
        let c = &self.chans[ci];
        if c.plan.cust_bal as i128 > MAXB || c.plan.merch_bal as i128 > MAXB {
            crate::harness_error("plan: balance out of range");
        }
        let (cb, mb) = match (za::CustomerBalance::try_new(c.plan.cust_bal), za::MerchantBalance::try_new(c.plan.merch_bal)) {
            (Ok(a), Ok(b)) => (a, b),
            _ => {
                let d = format!("channel {}: an in-range balance of ({}, {}) is refused by its constructor", ci, c.plan.cust_bal, c.plan.merch_bal);
                self.o.violate("balance-constructor-wrong", "try_new", d);
                self.finish_channel(ci);
                return;
            }
        };
        // merchant application duty: channel capacity
        let cap = mb.try_add(cb);
        let ideal = c.plan.cust_bal as i128 + c.plan.merch_bal as i128;
        match cap {
            Ok(v) => {
                if ideal > MAXB || v.into_inner() as i128 != ideal {
                    self.o.violate("try-add-wrong", "MerchantBalance::try_add", format!("{} + {} gave {}", c.plan.merch_bal, c.plan.cust_bal, v.into_inner()));
                }
            }
            Err(_) => {
                if ideal <= MAXB {
                    self.o.violate("try-add-wrong", "MerchantBalance::try_add", format!("{} + {} refused", c.plan.merch_bal, c.plan.cust_bal));
                }
            }
        }
        let ctx = ctx_for(self.plan.seed, ci, -1);
        let mut rng = self.customer_rng(ci, -1, "new");
        let (req, proof) = Requested::new(&mut rng, self.cust_cfg(m), cid, mb, cb, &ctx);
        self.note_entropy(&rng);
        let pt = atoms::trace(&proof);
        self.chans[ci].cid = Some(cid);
        self.chans[ci].stage = Stage::Requested(req);
        self.chans[ci].last_proof = Some(pt.clone());
        self.chans[ci].last_proof_kind = "establish";
        let img = self.chans[ci].stage.trace();
        let e = self.log(ci, -1, "establish-proof", Dir::C2M, Some(pt), "sent", true);
        self.history[e].image_after = img.map(|t| ("requested".to_string(), t));
        self.chans[ci].last_proof_event = Some(e);
        // keep the object for in-process hand-over
        self.chans[ci].pend_est = Some(proof);
        self.check_ledger(ci, "Requested::new");
        self.persist_point(ci);
    }

    fn finish_channel(&mut self, ci: usize) {
        let n = self.chans[ci].steps.len();
        self.chans[ci].pc = n;
    }

    fn do_init(&mut self, ci: usize) {
        let m = self.chans[ci].m;
        let bytes = self.chans[ci].last_proof.as_ref().map(|t| t.bytes.clone()).unwrap_or_default();
        let obj = self.chans[ci].pend_est.take();
        let proof: za::EstablishProof = if self.plan.wire {
            match bincode::deserialize(&bytes) {
                Ok(p) => p,
                Err(e) => {
                    self.o.violate("honest-message-rejected-by-decoder", "EstablishProof", format!("channel {}: {}", ci, e));
                    self.finish_channel(ci);
                    return;
                }
            }
        } else {
            match obj {
                Some(p) => p,
                None => crate::harness_error("world: establish proof object missing"),
            }
        };
        let c = &self.chans[ci];
        let cid = c.cid.unwrap();
        let cb = za::CustomerBalance::try_new(c.plan.cust_bal).unwrap();
        let mb = za::MerchantBalance::try_new(c.plan.merch_bal).unwrap();
        let mut rng = self.rng(ci, -1, "merchant/initialize");
        let ctx = ctx_for(self.plan.seed, ci, -1);
        let (r, ch, _) = crate::forge::with_recording(|| m.cfg.initialize(&mut rng, &cid, cb, mb, proof, &ctx));
        if let Some(e) = self.chans[ci].last_proof_event {
            self.history[e].challenge = ch;
        }
        match r {
            Some((cs, vbs)) => {
                let t = atoms::trace(&cs);
                self.replies.push((ci, -1, "cs", t.bytes.clone()));
                self.chans[ci].held_cs = Some((cs, t.bytes.clone()));
                self.chans[ci].vbs = Some(vbs);
                self.log(ci, -1, "merchant-initialize", Dir::Local, None, "accepted", true);
            }
            None => {
                self.log(ci, -1, "merchant-initialize", Dir::Local, None, "refused", true);
                self.o.violate("honest-establish-refused", "merchant::Config::initialize", format!("channel {} ({}, {})", ci, self.chans[ci].plan.cust_bal, self.chans[ci].plan.merch_bal));
                self.finish_channel(ci);
            }
        }
    }

    fn closing_sig_for_delivery(&mut self, ci: usize, pay: i32, fault: &Option<ReplyFault>, k: usize) -> Option<(za::ClosingSignature, Trace)> {
        match fault {
            None => {
                let (obj, bytes) = match self.chans[ci].held_cs.take() {
                    Some(x) => x,
                    None => crate::harness_error("world: no closing signature held"),
                };
                let t = atoms::trace(&obj);
                if self.plan.wire {
                    match bincode::deserialize::<za::ClosingSignature>(&bytes) {
                        Ok(o2) => Some((o2, t)),
                        Err(e) => {
                            self.o.violate("honest-message-rejected-by-decoder", "ClosingSignature", format!("channel {}: {}", ci, e));
                            None
                        }
                    }
                } else {
                    Some((obj, t))
                }
            }
            Some(ReplyFault::IdentityValue) => {
                let v = self.identity_closing_signature(ci, pay)?;
                let t = atoms::trace(&v);
                if t.bytes[..48] != refc::bad::g1_identity()[..] {
                    // the signer did not use the first draw as its exponent: not the identity, but
                    // still a signature with a degenerate (zero-entropy) randomiser
                    self.o.bump("probe.identity_value_not_identity");
                } else {
                    self.o.bump("probe.identity_value_built");
                    if bincode::deserialize::<za::ClosingSignature>(&t.bytes).is_ok() {
                        self.o.bump("probe.identity_bytes_decoded");
                    }
                }
                Some((v, t))
            }
            Some(f) => {
                let b = self.faulty_reply_bytes(ci, pay, true, f, k)?;
                match bincode::deserialize::<za::ClosingSignature>(&b) {
                    Ok(v) => {
                        let t = atoms::trace(&v);
                        Some((v, t))
                    }
                    Err(_) => {
                        self.o.bump("probe.faulty_reply_refused_by_decoder");
                        None
                    }
                }
            }
        }
    }

    fn pay_token_for_delivery(&mut self, ci: usize, pay: i32, fault: &Option<ReplyFault>, k: usize) -> Option<(za::PayToken, Trace)> {
        match fault {
            None => {
                let (obj, bytes) = match self.chans[ci].held_pt.take() {
                    Some(x) => x,
                    None => crate::harness_error("world: no pay token held"),
                };
                let t = atoms::trace(&obj);
                if self.plan.wire {
                    match bincode::deserialize::<za::PayToken>(&bytes) {
                        Ok(o2) => Some((o2, t)),
                        Err(e) => {
                            self.o.violate("honest-message-rejected-by-decoder", "PayToken", format!("channel {}: {}", ci, e));
                            None
                        }
                    }
                } else {
                    Some((obj, t))
                }
            }
            Some(ReplyFault::IdentityValue) => {
                let v = self.identity_pay_token(ci, pay)?;
                let t = atoms::trace(&v);
                if t.bytes[..48] == refc::bad::g1_identity()[..] {
                    self.o.bump("probe.identity_value_built");
                } else {
                    self.o.bump("probe.identity_value_not_identity");
                }
                Some((v, t))
            }
            Some(f) => {
                let b = self.faulty_reply_bytes(ci, pay, false, f, k)?;
                match bincode::deserialize::<za::PayToken>(&b) {
                    Ok(v) => {
                        let t = atoms::trace(&v);
                        Some((v, t))
                    }
                    Err(_) => {
                        self.o.bump("probe.faulty_reply_refused_by_decoder");
                        None
                    }
                }
            }
        }
    }

    fn fault_name(f: &ReplyFault) -> &'static str {
        match f {
            ReplyFault::Garbage => "garbage",
            ReplyFault::Shift { .. } => "shifted-commitment",
            ReplyFault::AltTag { .. } => "alternative-tag",
            ReplyFault::WrongType => "wrong-type",
            ReplyFault::OtherKey => "other-key",
            ReplyFault::Replay { .. } => "replay",
            ReplyFault::IdentityBytes => "identity-bytes",
            ReplyFault::IdentityValue => "identity-value",
        }
    }

    fn do_cs_reply(&mut self, ci: usize, pay: i32, fault: Option<ReplyFault>) {
        let k = self.chans[ci].pc;
        let honest = fault.is_none();
        let fname = fault.as_ref().map(Self::fault_name).unwrap_or("honest");
        if !honest {
            self.o.bump(&format!("fault.reply.{}", fname));
        }
        let (sig, t) = match self.closing_sig_for_delivery(ci, pay, &fault, k) {
            Some(x) => x,
            None => {
                if honest {
                    self.finish_channel(ci);
                }
                self.chans[ci].last_fault = fname.to_string();
                self.chans[ci].last_outcome = "undeliverable".into();
                self.log(ci, pay, "closing-signature-reply", Dir::M2C, None, "undeliverable", honest);
                return;
            }
        };
        let m = self.chans[ci].m;
        let before = self.chans[ci].stage.image();
        let stage = std::mem::replace(&mut self.chans[ci].stage, Stage::Empty);
        let sname = stage.name();
        let mut accepted = false;
        let mut lockmsg = None;
        let new_stage = match stage {
            Stage::Requested(r) => match r.complete(sig, self.cust_cfg(m)) {
                Ok(i) => {
                    accepted = true;
                    Stage::Inactive(i)
                }
                Err(r) => Stage::Requested(r),
            },
            Stage::Started(s) => match s.lock(sig, self.cust_cfg(m)) {
                Ok((l, lm)) => {
                    accepted = true;
                    lockmsg = Some(lm);
                    Stage::Locked(l)
                }
                Err(s) => Stage::Started(s),
            },
            other => {
                let n = other.name();
                self.chans[ci].stage = other;
                crate::harness_error(&format!("world: closing signature delivered in stage {}", n));
            }
        };
        self.chans[ci].stage = new_stage;
        self.chans[ci].last_fault = fname.to_string();
        self.chans[ci].last_outcome = if accepted { "accepted".into() } else { "refused".into() };
        let e = self.log(ci, pay, "closing-signature-reply", Dir::M2C, Some(t), if accepted { "accepted" } else { "refused" }, honest);
        let img = self.chans[ci].stage.trace();
        self.history[e].image_after = img.map(|t| (self.chans[ci].stage.name().to_string(), t));
        if honest {
            let nfaults = if pay < 0 { self.chans[ci].plan.est_cs_faults.len() } else { self.chans[ci].plan.payments[pay as usize].cs_faults.len() };
            if accepted {
                self.o.bump(&format!("probe.honest_reply_after_{}_faults", nfaults.min(4)));
            } else {
                self.o.violate(
                    "honest-reply-refused",
                    &format!("customer::{}", sname),
                    format!("channel {} payment {}: the honest closing signature was refused after {} faulty replies", ci, pay, nfaults),
                );
                self.finish_channel(ci);
                return;
            }
        } else if accepted {
            self.o.violate(
                "faulty-reply-accepted",
                &format!("customer::{}/{}", sname, fname),
                format!("channel {} payment {}: a {} reply was accepted as closing signature{}", ci, pay, fname, if lockmsg.is_some() { " and the revocation secret was released" } else { "" }),
            );
            self.finish_channel(ci);
            return;
        } else {
            self.chans[ci].refused_just_now = true;
            let after = self.chans[ci].stage.image();
            if after != before {
                self.o.violate(
                    "refused-reply-changed-state",
                    &format!("customer::{}/{}", sname, fname),
                    format!("channel {} payment {}: stage image differs after a refused {} reply", ci, pay, fname),
                );
            }
        }
        if let Some(lm) = lockmsg {
            let lt = atoms::trace(&(&lm.revocation_pair, &lm.revocation_lock_blinding_factor));
            // every pair in a lock message is a hash pair
            let lock = lt.get("[0].lock").to_vec();
            let secret = lt.get("[0].secret.secret").to_vec();
            let index = lt.get("[0].secret.index")[0];
            let ok = refc::rev_lock(&secret, index).map(|l| refc::scb(&l).to_vec() == lock).unwrap_or(false);
            if !ok {
                self.o.violate("lock-message-pair-not-hash-pair", "LockMessage", format!("channel {} payment {}", ci, pay));
            }
            let mut lb = [0u8; 32];
            lb.copy_from_slice(&lock);
            self.chans[ci].revealed_locks.insert(lb);
            let e = self.log(ci, pay, "lock-message", Dir::C2M, Some(lt), "sent", true);
            let img = self.chans[ci].stage.trace();
            self.history[e].image_after = img.map(|t| ("locked".to_string(), t));
            self.chans[ci].lockmsg = Some(lm);
        }
        self.check_ledger(ci, "closing-signature reply");
        self.persist_point(ci);
        self.chans[ci].refused_just_now = false;
    }

    fn do_activate(&mut self, ci: usize) {
        let m = self.chans[ci].m;
        let vbs = match self.chans[ci].vbs.take() {
            Some(v) => v,
            None => crate::harness_error("world: activate without a verified blinded state"),
        };
        let mut rng = self.rng(ci, -1, "merchant/activate");
        let pt = m.cfg.activate(&mut rng, vbs);
        let t = atoms::trace(&pt);
        self.replies.push((ci, -1, "pt", t.bytes.clone()));
        self.chans[ci].held_pt = Some((pt, t.bytes));
        self.log(ci, -1, "merchant-activate", Dir::Local, None, "issued", true);
    }

    fn do_pt_reply(&mut self, ci: usize, pay: i32, fault: Option<ReplyFault>) {
        let k = self.chans[ci].pc;
        let honest = fault.is_none();
        let fname = fault.as_ref().map(Self::fault_name).unwrap_or("honest");
        if !honest {
            self.o.bump(&format!("fault.reply.{}", fname));
        }
        let (tok, t) = match self.pay_token_for_delivery(ci, pay, &fault, k) {
            Some(x) => x,
            None => {
                if honest {
                    self.finish_channel(ci);
                }
                self.chans[ci].last_fault = fname.to_string();
                self.chans[ci].last_outcome = "undeliverable".into();
                self.log(ci, pay, "pay-token-reply", Dir::M2C, None, "undeliverable", honest);
                return;
            }
        };
        let m = self.chans[ci].m;
        let before = self.chans[ci].stage.image();
        let stage = std::mem::replace(&mut self.chans[ci].stage, Stage::Empty);
        let sname = stage.name();
        let mut accepted = false;
        let new_stage = match stage {
            Stage::Inactive(i) => match i.activate(tok, self.cust_cfg(m)) {
                Ok(r) => {
                    accepted = true;
                    Stage::Ready(r)
                }
                Err(i) => Stage::Inactive(i),
            },
            Stage::Locked(l) => match l.unlock(tok, self.cust_cfg(m)) {
                Ok(r) => {
                    accepted = true;
                    Stage::Ready(r)
                }
                Err(l) => Stage::Locked(l),
            },
            other => {
                let n = other.name();
                self.chans[ci].stage = other;
                crate::harness_error(&format!("world: pay token delivered in stage {}", n));
            }
        };
        self.chans[ci].stage = new_stage;
        self.chans[ci].last_fault = fname.to_string();
        self.chans[ci].last_outcome = if accepted { "accepted".into() } else { "refused".into() };
        let e = self.log(ci, pay, "pay-token-reply", Dir::M2C, Some(t), if accepted { "accepted" } else { "refused" }, honest);
        let img = self.chans[ci].stage.trace();
        self.history[e].image_after = img.map(|t| (self.chans[ci].stage.name().to_string(), t));
        if honest {
            let nfaults = if pay < 0 { self.chans[ci].plan.est_pt_faults.len() } else { self.chans[ci].plan.payments[pay as usize].pt_faults.len() };
            if accepted {
                self.o.bump(&format!("probe.honest_reply_after_{}_faults", nfaults.min(4)));
                if pay >= 0 {
                    // payment complete: the ledger moves
                    let a = self.chans[ci].l_pending.take().unwrap_or(0) as i128;
                    self.chans[ci].l_cust -= a;
                    self.chans[ci].l_merch += a;
                    self.chans[ci].payments_completed += 1;
                    self.o.bump("probe.payment_completed");
                } else {
                    self.o.bump("probe.channel_activated");
                }
            } else {
                self.o.violate(
                    "honest-reply-refused",
                    &format!("customer::{}", sname),
                    format!("channel {} payment {}: the honest pay token was refused after {} faulty replies", ci, pay, nfaults),
                );
                self.finish_channel(ci);
                return;
            }
        } else if accepted {
            self.o.violate(
                "faulty-reply-accepted",
                &format!("customer::{}/{}", sname, fname),
                format!("channel {} payment {}: a {} reply was accepted as pay token", ci, pay, fname),
            );
            self.finish_channel(ci);
            return;
        } else {
            self.chans[ci].refused_just_now = true;
            let after = self.chans[ci].stage.image();
            if after != before {
                self.o.violate(
                    "refused-reply-changed-state",
                    &format!("customer::{}/{}", sname, fname),
                    format!("channel {} payment {}: stage image differs after a refused {} reply", ci, pay, fname),
                );
            }
        }
        self.check_ledger(ci, "pay-token reply");
        self.persist_point(ci);
        self.chans[ci].refused_just_now = false;
    }

    fn do_start(&mut self, ci: usize, pay: usize) {
        let m = self.chans[ci].m;
        let a = self.chans[ci].plan.payments[pay].amount;
        let (c0, m0) = (self.chans[ci].l_cust, self.chans[ci].l_merch);
        let (nc, nm) = (c0 - a as i128, m0 + a as i128);
        let admissible = nc >= 0 && nc <= MAXB && nm >= 0 && nm <= MAXB;
        let amt = match amount_of(a) {
            Some(x) => x,
            None => {
                // i64::MIN has no constructor: the constructors must refuse its magnitude
                if za::PaymentAmount::pay_customer(1u64 << 63).is_ok() || za::PaymentAmount::pay_merchant(1u64 << 63).is_ok() {
                    self.o.violate("amount-constructor-accepts-2^63", "PaymentAmount", "a constructor accepted magnitude 2^63".into());
                }
                self.o.bump("probe.amount_unconstructible");
                self.chans[ci].skip_pay = Some(pay);
                self.log(ci, pay as i32, "start", Dir::Local, None, "unconstructible-amount", true);
                return;
            }
        };
        if amt.to_i64() != a {
            self.o.violate("amount-constructor-wrong", "PaymentAmount", format!("constructed {} for {}", amt.to_i64(), a));
        }
        let before_t = self.chans[ci].stage.trace();
        let before = before_t.as_ref().map(|t| t.bytes.clone()).unwrap_or_default();
        let stage = std::mem::replace(&mut self.chans[ci].stage, Stage::Empty);
        let ready = match stage {
            Stage::Ready(r) => r,
            other => {
                let n = other.name();
                self.chans[ci].stage = other;
                crate::harness_error(&format!("world: start in stage {}", n));
            }
        };
        let mut rng = self.customer_rng(ci, pay as i32, "start");
        let ctx = ctx_for(self.plan.seed, ci, pay as i32);
        let ccfg = self.cust_cfg(m);
        let fails_planned = rng.faults.values().any(|f| *f == EntropyFault::Fail);
        let start_result = if !fails_planned {
            ready.start(&mut rng, amt, &ctx, ccfg)
        } else {
            // the entropy source may report failure inside this call: the infallible draws then
            // panic, the party dies and comes back from its stored image with a working source.
            // If the call returns instead, whatever it sends is judged as under healthy entropy.
            let attempt = std::panic::catch_unwind(std::panic::AssertUnwindSafe(|| ready.start(&mut rng, amt, &ctx, ccfg)));
            match attempt {
                Ok(r) => {
                    self.o.bump("probe.start_returned_despite_entropy_failure");
                    r
                }
                Err(p) => {
                    let (loc, msg) = crate::driver::take_panic();
                    if !msg.contains(crate::rng::ENTROPY_FAILURE) {
                        // some other panic of the library: not ours to swallow
                        crate::driver::put_panic(loc, msg);
                        std::panic::resume_unwind(p);
                    }
                    self.o.bump("fault.entropy.customer-source-failed");
                    self.o.bump("fault.crash_restore");
                    let again = match Stage::restore("ready", &before) {
                        Ok(Stage::Ready(r)) => r,
                        _ => crate::harness_error("world: the Ready image taken before start does not restore"),
                    };
                    let mut healthy = self.rng(ci, pay as i32, "customer/start/after-entropy-failure");
                    again.start(&mut healthy, amt, &ctx, ccfg)
                }
            }
        };
        self.note_entropy(&rng);
        match start_result {
            Ok((started, sm)) => {
                self.chans[ci].stage = Stage::Started(started);
                if !admissible {
                    self.o.violate(
                        "inadmissible-payment-started",
                        "customer::Ready::start",
                        format!("channel {}: amount {} on ({}, {}) leaves the range but start succeeded", ci, a, c0, m0),
                    );
                }
                let nt = atoms::trace(&sm.nonce);
                if !self.seen_nonces.insert(nt.bytes.clone()) {
                    self.o.violate("nonce-not-fresh", "StartMessage.nonce", format!("channel {} payment {} shows a nonce already shown in this run", ci, pay));
                }
                if nt.bytes == refc::scb(&refc::close_tag()) {
                    self.o.violate("nonce-equals-close-tag", "StartMessage.nonce", format!("channel {} payment {}", ci, pay));
                }
                let pt = atoms::trace(&sm.pay_proof);
                let mt = atoms::trace(&(&sm.nonce, &sm.pay_proof));
                self.chans[ci].last_proof = Some(pt);
                self.chans[ci].last_proof_kind = "pay";
                self.chans[ci].last_nonce = Some(nt.bytes);
                self.chans[ci].l_pending = Some(a);
                self.chans[ci].pend_pay = Some((sm.nonce, sm.pay_proof));
                self.chans[ci].last_outcome = "started".into();
                let e = self.log(ci, pay as i32, "start-message", Dir::C2M, Some(mt), "sent", true);
                self.chans[ci].last_proof_event = Some(e);
                let img = self.chans[ci].stage.trace();
                self.history[e].image_after = img.map(|t| ("started".to_string(), t));
                self.history[e].image_before = before_t.map(|t| ("ready".to_string(), t));
                self.o.bump("probe.payment_started");
                if a == 0 {
                    self.o.bump("probe.zero_amount_started");
                }
                if a < 0 {
                    self.o.bump("probe.negative_amount_started");
                }
                if nc == 0 || nm == 0 || nc == MAXB || nm == MAXB {
                    self.o.bump("probe.boundary_balance_reached");
                }
            }
            Err((ready, err)) => {
                self.chans[ci].stage = Stage::Ready(ready);
                self.chans[ci].skip_pay = Some(pay);
                self.chans[ci].last_outcome = "start-refused".into();
                let neg = nc < 0 || nm < 0;
                let big = nc > MAXB || nm > MAXB;
                let (is_insuff, is_large) = match err {
                    za::Error::InsufficientFunds => (true, false),
                    za::Error::AmountTooLarge(_) => (false, true),
                };
                self.log(ci, pay as i32, "start", Dir::Local, None, if is_insuff { "refused-insufficient" } else { "refused-too-large" }, true);
                self.o.bump("probe.start_refused");
                if admissible {
                    self.o.violate(
                        "admissible-payment-refused",
                        "customer::Ready::start",
                        format!("channel {}: amount {} on ({}, {}) stays in range but start returned {:?}", ci, a, c0, m0, err),
                    );
                } else if (is_insuff && !neg) || (is_large && !big) {
                    self.o.violate(
                        "wrong-error-variant",
                        "customer::Ready::start",
                        format!("channel {}: amount {} on ({}, {}) returned {:?}", ci, a, c0, m0, err),
                    );
                }
                if self.chans[ci].stage.image() != before {
                    self.o.violate("refused-start-changed-state", "customer::Ready::start", format!("channel {}: stage image differs after a refused start", ci));
                }
            }
        }
        self.check_ledger(ci, "start");
        self.persist_point(ci);
    }

    fn do_allow(&mut self, ci: usize, pay: usize) {
        let m = self.chans[ci].m;
        let a = self.chans[ci].plan.payments[pay].amount;
        let amt = amount_of(a).unwrap();
        let (nonce, proof) = if self.plan.wire {
            let nb = self.chans[ci].last_nonce.clone().unwrap_or_default();
            let pb = self.chans[ci].last_proof.as_ref().map(|t| t.bytes.clone()).unwrap_or_default();
            self.chans[ci].pend_pay = None;
            match (bincode::deserialize::<za::Nonce>(&nb), bincode::deserialize::<za::PayProof>(&pb)) {
                (Ok(n), Ok(p)) => (n, p),
                _ => {
                    self.o.violate("honest-message-rejected-by-decoder", "StartMessage", format!("channel {} payment {}", ci, pay));
                    self.finish_channel(ci);
                    return;
                }
            }
        } else {
            match self.chans[ci].pend_pay.take() {
                Some(x) => x,
                None => crate::harness_error("world: start message object missing"),
            }
        };
        let mut rng = self.rng(ci, pay as i32, "merchant/allow_payment");
        let ctx = ctx_for(self.plan.seed, ci, pay as i32);
        let (r, ch, _) = crate::forge::with_recording(|| m.cfg.allow_payment(&mut rng, amt, &nonce, proof, &ctx));
        if let Some(e) = self.chans[ci].last_proof_event {
            self.history[e].challenge = ch;
        }
        match r {
            Some((unrev, cs)) => {
                let t = atoms::trace(&cs);
                self.replies.push((ci, pay as i32, "cs", t.bytes.clone()));
                self.chans[ci].held_cs = Some((cs, t.bytes));
                self.chans[ci].unrevoked = Some(unrev);
                self.log(ci, pay as i32, "merchant-allow-payment", Dir::Local, None, "accepted", true);
            }
            None => {
                self.log(ci, pay as i32, "merchant-allow-payment", Dir::Local, None, "refused", true);
                let c = &self.chans[ci];
                self.o.violate(
                    "honest-payment-refused",
                    "merchant::Config::allow_payment",
                    format!("channel {} payment {}: amount {} on ({}, {})", ci, pay, a, c.l_cust, c.l_merch),
                );
                self.finish_channel(ci);
            }
        }
    }

    fn lock_fault_name(f: &LockFault) -> &'static str {
        match f {
            LockFault::NewStatePair => "new-state-pair",
            LockFault::FreshPair => "fresh-pair",
            LockFault::ForeignPair { .. } => "foreign-pair",
            LockFault::WrongBf { .. } => "wrong-blinding-factor",
            LockFault::Corrupt { .. } => "corrupt-pair-encoding",
            LockFault::CompensatedBf { .. } => "compensated-blinding-factor",
            LockFault::OtherIndex => "same-secret-other-index",
        }
    }

    fn do_lock(&mut self, ci: usize, pay: usize, fault: Option<LockFault>) {
        let k = self.chans[ci].pc;
        let unrev = match self.chans[ci].unrevoked.take() {
            Some(u) => u,
            None => crate::harness_error("world: lock message without a pending payment"),
        };
        let lm = match self.chans[ci].lockmsg.as_ref() {
            Some(l) => l,
            None => crate::harness_error("world: no lock message to carry"),
        };
        let right_pair = atoms::encode(&lm.revocation_pair);
        let right_bf = atoms::encode(&lm.revocation_lock_blinding_factor);
        let mut sch = crate::rng::Sched::new(self.plan.seed, &format!("world/carrier/c{}/p{}/{}", ci, pay, k));
        let fname = fault.as_ref().map(Self::lock_fault_name).unwrap_or("honest");
        let (pair_bytes, bf_bytes): (Vec<u8>, Vec<u8>) = match &fault {
            None => (right_pair.clone(), right_bf.clone()),
            Some(LockFault::NewStatePair) => {
                let t = self.chans[ci].stage.trace().unwrap_or_else(|| crate::harness_error("no stage"));
                let mut b = t.get("state.revocation_pair.lock").to_vec();
                b.extend_from_slice(t.get("state.revocation_pair.secret.secret"));
                b.extend_from_slice(t.get("state.revocation_pair.secret.index"));
                (b, right_bf.clone())
            }
            Some(LockFault::FreshPair) => {
                let mut r = self.rng(ci, pay as i32, &format!("carrier/fresh-pair/{}", k));
                (atoms::encode(&za::internal::test_new_revocation_pair(&mut r)), right_bf.clone())
            }
            Some(LockFault::ForeignPair { pick }) => {
                let cands: Vec<&Vec<u8>> = self.lockmsgs.iter().filter(|(c, p, _, _)| !(*c == ci && *p == pay)).map(|(_, _, a, _)| a).collect();
                if cands.is_empty() {
                    self.o.bump("probe.foreign_pair_fell_back_to_fresh");
                    let mut r = self.rng(ci, pay as i32, &format!("carrier/fresh-pair/{}", k));
                    (atoms::encode(&za::internal::test_new_revocation_pair(&mut r)), right_bf.clone())
                } else {
                    self.o.bump("probe.foreign_pair_had_material");
                    (cands[*pick as usize % cands.len()].clone(), right_bf.clone())
                }
            }
            Some(LockFault::WrongBf { mode }) => {
                let bf = refc::sc(&right_bf);
                let nb = match mode % 3 {
                    0 => refc::rand_scalar(&mut sch),
                    1 => bf + Scalar::one(),
                    _ => {
                        let cands: Vec<&Vec<u8>> = self.lockmsgs.iter().filter(|(c, p, _, _)| !(*c == ci && *p == pay)).map(|(_, _, _, b)| b).collect();
                        if cands.is_empty() {
                            -bf
                        } else {
                            refc::sc(cands[k % cands.len()])
                        }
                    }
                };
                (right_pair.clone(), refc::scb(&nb).to_vec())
            }
            Some(LockFault::OtherIndex) => {
                let secret = right_pair[32..64].to_vec();
                let idx0 = right_pair[64];
                let mut found = None;
                for d in 1..=255u8 {
                    let i = idx0.wrapping_add(d);
                    if let Some(l) = refc::rev_lock(&secret, i) {
                        found = Some((l, i));
                        break;
                    }
                }
                match found {
                    Some((l, i)) => {
                        let mut b = refc::scb(&l).to_vec();
                        b.extend_from_slice(&secret);
                        b.push(i);
                        (b, right_bf.clone())
                    }
                    None => (right_pair.clone(), right_bf.clone()),
                }
            }
            Some(LockFault::CompensatedBf { pick }) => {
                let cands: Vec<&Vec<u8>> = self.lockmsgs.iter().filter(|(c, p, _, _)| !(*c == ci && *p == pay)).map(|(_, _, a, _)| a).collect();
                let other: Vec<u8> = if cands.is_empty() {
                    let mut r = self.rng(ci, pay as i32, &format!("carrier/fresh-pair/{}", k));
                    atoms::encode(&za::internal::test_new_revocation_pair(&mut r))
                } else {
                    cands[*pick as usize % cands.len()].clone()
                };
                let bf = refc::sc(&right_bf);
                let (l_right, l_other) = (refc::sc(&right_pair[..32]), refc::sc(&other[..32]));
                (other, refc::scb(&(bf + l_right - l_other)).to_vec())
            }
            Some(LockFault::Corrupt { field }) => {
                let mut b = right_pair.clone();
                match field % 3 {
                    0 => b[..32].copy_from_slice(&refc::scb(&refc::rand_scalar(&mut sch))),
                    1 => b[32..64].copy_from_slice(&refc::scb(&refc::rand_scalar(&mut sch))),
                    _ => b[64] = b[64].wrapping_add(1 + (sch.usize(200) as u8)),
                }
                (b, right_bf.clone())
            }
        };
        let honest = fault.is_none();
        if !honest {
            self.o.bump(&format!("fault.lock.{}", fname));
            if pair_bytes == right_pair && bf_bytes == right_bf {
                // degenerate draw (cannot happen except with negligible probability)
                self.chans[ci].unrevoked = Some(unrev);
                return;
            }
        }
        let pair = if honest && !self.plan.wire { None } else { Some(bincode::deserialize::<za::revlock::RevocationPair>(&pair_bytes)) };
        let bf = bincode::deserialize::<za::revlock::RevocationLockBlindingFactor>(&bf_bytes);
        let mut rng = self.rng(ci, pay as i32, &format!("merchant/complete_payment/{}", if honest { 0 } else { k }));
        let result = match (pair, bf) {
            (None, Ok(_)) => {
                let lm = self.chans[ci].lockmsg.as_ref().unwrap();
                unrev.complete_payment(&mut rng, &lm.revocation_pair, &lm.revocation_lock_blinding_factor)
            }
            (Some(Ok(p)), Ok(b)) => {
                // every pair that decodes is a hash pair
                let s = p.revocation_secret().as_bytes();
                let ok = refc::rev_lock(&s[..32], s[32]).map(|l| refc::scb(&l) == p.revocation_lock().as_bytes()).unwrap_or(false);
                if !ok {
                    self.o.violate("decoded-pair-not-hash-pair", "RevocationPair", format!("channel {} payment {} ({})", ci, pay, fname));
                }
                if matches!(fault, Some(LockFault::Corrupt { .. })) {
                    self.o.violate("corrupt-revocation-pair-decoded", "RevocationPair", format!("channel {} payment {}: a pair encoding with one field altered decodes", ci, pay));
                }
                unrev.complete_payment(&mut rng, &p, &b)
            }
            (Some(Err(_)), _) | (_, Err(_)) => {
                if honest {
                    self.o.violate("honest-message-rejected-by-decoder", "LockMessage", format!("channel {} payment {}", ci, pay));
                    self.chans[ci].unrevoked = Some(unrev);
                    self.finish_channel(ci);
                    return;
                }
                self.o.bump("probe.corrupt_pair_refused_by_decoder");
                self.chans[ci].unrevoked = Some(unrev);
                self.chans[ci].last_fault = fname.to_string();
                self.chans[ci].last_outcome = "undeliverable".into();
                self.log(ci, pay as i32, "revocation-to-merchant", Dir::Local, None, "undeliverable", false);
                return;
            }
        };
        self.chans[ci].last_fault = fname.to_string();
        match result {
            Ok(tok) => {
                self.chans[ci].last_outcome = "token-issued".into();
                self.log(ci, pay as i32, "revocation-to-merchant", Dir::Local, None, "token-issued", honest);
                if !honest {
                    self.o.violate(
                        "wrong-revocation-accepted",
                        &format!("merchant::Unrevoked::complete_payment/{}", fname),
                        format!("channel {} payment {}: a pay token was issued for a {} candidate", ci, pay, fname),
                    );
                    self.finish_channel(ci);
                    return;
                }
                let nf = self.chans[ci].plan.payments[pay].lock_faults.len();
                self.o.bump(&format!("probe.right_revocation_after_{}_wrong", nf.min(4)));
                let mut lb = [0u8; 32];
                lb.copy_from_slice(&right_pair[..32]);
                if !self.seen_locks.insert(lb) {
                    self.o.violate("revocation-lock-not-fresh", "LockMessage", format!("channel {} payment {}", ci, pay));
                }
                self.lockmsgs.push((ci, pay, right_pair, right_bf));
                let t = atoms::trace(&tok);
                self.replies.push((ci, pay as i32, "pt", t.bytes.clone()));
                self.chans[ci].held_pt = Some((tok, t.bytes));
            }
            Err(u) => {
                self.chans[ci].last_outcome = "revocation-refused".into();
                self.log(ci, pay as i32, "revocation-to-merchant", Dir::Local, None, "refused", honest);
                self.chans[ci].unrevoked = Some(u);
                if honest {
                    let nf = self.chans[ci].plan.payments[pay].lock_faults.len();
                    self.o.violate(
                        "right-revocation-refused",
                        "merchant::Unrevoked::complete_payment",
                        format!("channel {} payment {}: the right pair and blinding factor were refused after {} wrong candidates", ci, pay, nf),
                    );
                    self.finish_channel(ci);
                }
            }
        }
    }

    fn do_close(&mut self, ci: usize) {
        let m = self.chans[ci].m;
        let before = self.chans[ci].stage.trace();
        let stage = std::mem::replace(&mut self.chans[ci].stage, Stage::Closed);
        let sname = stage.name();
        let mut rng = self.customer_rng(ci, 9999, "close");
        let cm = match stage {
            Stage::Inactive(s) => s.close(&mut rng),
            Stage::Ready(s) => s.close(&mut rng),
            Stage::Started(s) => s.close(&mut rng),
            Stage::Locked(s) => s.close(&mut rng),
            other => {
                let n = other.name();
                crate::harness_error(&format!("world: close in stage {}", n));
            }
        };
        self.note_entropy(&rng);
        self.o.bump(&format!("probe.stop_at_{}", sname));
        let t = atoms::trace(&cm);
        let c = &self.chans[ci];
        let (ec, em) = if sname == "locked" {
            let a = c.l_pending.unwrap_or(0) as i128;
            (c.l_cust - a, c.l_merch + a)
        } else {
            (c.l_cust, c.l_merch)
        };
        let site = format!("customer::{}::close", sname);
        let (rc, rm) = (cm.customer_balance().into_inner() as i128, cm.merchant_balance().into_inner() as i128);
        let mut problems = Vec::new();
        if rc != ec || rm != em {
            problems.push(("closing-message-wrong-balances", format!("closing message carries ({}, {}), ideal ledger has ({}, {})", rc, rm, ec, em)));
        }
        if Some(cm.channel_id().to_bytes()) != c.cid.map(|x| x.to_bytes()) {
            problems.push(("closing-message-wrong-channel-id", "closing message carries another channel id".to_string()));
        }
        let lock = cm.revocation_lock().as_bytes();
        if c.revealed_locks.contains(&lock) {
            problems.push(("closing-message-on-revoked-state", "the closing message's revocation lock was disclosed in an earlier lock message".to_string()));
        }
        let cm2: za::customer::ClosingMessage = if self.plan.wire {
            match bincode::deserialize(&t.bytes) {
                Ok(x) => x,
                Err(e) => {
                    problems.push(("honest-message-rejected-by-decoder", format!("ClosingMessage: {}", e)));
                    cm.clone()
                }
            }
        } else {
            cm.clone()
        };
        let (sig, cstate) = cm2.into_parts();
        let ok = verified(m.cfg.check_close_signature(sig, &cstate));
        if !ok {
            problems.push(("closing-message-refused-by-merchant", "check_close_signature returned Failed".to_string()));
        }
        // independent close check: the signature must satisfy the reference relation on the
        // message the ideal ledger assigns to this stage (not merely on whatever the library's own
        // encoding of the carried close state is)
        {
            let s1 = refc::g1(t.get("close_signature.sigma1"));
            let s2 = refc::g1(t.get("close_signature.sigma2"));
            let idb = c.cid.map(|x| x.to_bytes()).unwrap_or([0u8; 32]);
            let msg = [
                refc::sc_raw(&idb),
                refc::close_tag(),
                refc::sc(&lock),
                refc::int_scalar(ec),
                refc::int_scalar(em),
            ];
            if !refc::ps_verify(&m.pk, &msg, &s1, &s2) {
                problems.push((
                    "closing-signature-not-on-ledger-state",
                    "the closing signature does not satisfy the signature relation on (channel id, CLOSE, lock, ledger balances)".to_string(),
                ));
            }
        }
        for (class, d) in problems {
            self.o.violate(class, &site, format!("channel {}: {}", ci, d));
        }
        let e = self.log(ci, 9999, "closing-message", Dir::C2M, Some(t.clone()), if ok { "verified" } else { "failed" }, true);
        self.history[e].image_before = before.map(|t| (sname.to_string(), t));
        self.chans[ci].closing = Some(t);
        self.chans[ci].close_stage = sname.to_string();
        self.chans[ci].last_outcome = "closed".into();
    }

    pub fn run(mut self) -> RunResult {
        let mut t = 0usize;
        let guard = 100_000;
        loop {
            let unfinished: Vec<usize> = (0..self.chans.len()).filter(|&i| self.chans[i].pc < self.chans[i].steps.len()).collect();
            if unfinished.is_empty() {
                break;
            }
            let pick = if self.plan.order.is_empty() { 0 } else { self.plan.order[t % self.plan.order.len()] as usize };
            let ci = unfinished[pick % unfinished.len()];
            self.step(ci);
            t += 1;
            if t > guard {
                crate::harness_error("world: step guard exceeded");
            }
        }
        self.o.shape = self.shape;
        let mut h = 0u64;
        for e in &self.history {
            h = mix(&[h, e.seq, crate::hash_str(&e.kind), crate::hash_str(&e.outcome), e.trace.as_ref().map(|t| crate::hash_bytes(&t.bytes)).unwrap_or(0)]);
        }
        self.o.log_hash = h;
        let chans = self
            .chans
            .iter()
            .map(|c| ChanResult {
                cid: c.cid.map(|x| x.to_bytes()).unwrap_or([0; 32]),
                merchant: c.plan.merchant,
                final_cust: c.l_cust,
                final_merch: c.l_merch,
                closing: c.closing.clone(),
                close_stage: c.close_stage.clone(),
                payments_completed: c.payments_completed,
                revealed_locks: c.revealed_locks.clone(),
            })
            .collect();
        RunResult { history: self.history, chans }
    }
}
