//! Merchant contexts: a merchant configuration built from a seed (or from parts of other
//! configurations), the customer configuration extracted from it, and the raw key material the
//! Byzantine wrapper and the oracles need — all read from the *encodings* of the real objects.
//! Contexts are leaked into a process-wide cache (a pure function of their spec string).

use crate::atoms::{self, Trace};
use crate::refc::{self, Pk, Sk};
use crate::rng::SimRng;
use bls12_381::G1Projective;
use std::collections::BTreeMap;
use std::sync::{Mutex, OnceLock};
use zkabacus_crypto::{customer, merchant};
use zkchannels_crypto::{pedersen::PedersenParameters, pointcheval_sanders::KeyPair, proofs::RangeConstraintParameters};

pub struct RangeRaw {
    pub pk: Pk,
    /// digit signatures 0..127 as (sigma1, sigma2)
    pub sigs: Vec<(G1Projective, G1Projective)>,
}

pub struct MerchantCtx {
    pub spec: String,
    pub cfg: merchant::Config,
    pub ccfg: customer::Config,
    /// the same configuration as the customer holds it after receiving it over the wire / reading
    /// it back from its own storage: decoded from its encoding
    pub ccfg_wire: customer::Config,
    pub kp_bytes: Vec<u8>,
    pub rev_bytes: Vec<u8>,
    pub range_bytes: Vec<u8>,
    pub pk: Pk,
    pub sk: Sk,
    pub rev_h: G1Projective,
    pub rev_g: G1Projective,
    pub range: RangeRaw,
    pub ccfg_trace: Trace,
}

fn parts(seed: u64) -> (Vec<u8>, Vec<u8>, Vec<u8>) {
    let mut rng = SimRng::new(seed, "merchant-config");
    let cfg = merchant::Config::new(&mut rng);
    (
        atoms::encode(cfg.signing_keypair()),
        atoms::encode(cfg.revocation_commitment_parameters()),
        atoms::encode(cfg.range_constraint_parameters()),
    )
}

fn raw_parts(seed: u64) -> &'static (Vec<u8>, Vec<u8>, Vec<u8>) {
    static C: OnceLock<Mutex<BTreeMap<u64, &'static (Vec<u8>, Vec<u8>, Vec<u8>)>>> = OnceLock::new();
    let m = C.get_or_init(|| Mutex::new(BTreeMap::new()));
    if let Some(p) = m.lock().unwrap().get(&seed) {
        return p;
    }
    let p: &'static _ = Box::leak(Box::new(parts(seed)));
    let mut g = m.lock().unwrap();
    *g.entry(seed).or_insert(p)
}

pub fn range_raw(t: &Trace) -> RangeRaw {
    let pk = Pk::from_trace(t, "public_key");
    let mut sigs = Vec::new();
    loop {
        let n = sigs.len();
        match (
            t.find(&format!("digit_signatures[{}].sigma1", n)),
            t.find(&format!("digit_signatures[{}].sigma2", n)),
        ) {
            (Some(a), Some(b)) => sigs.push((refc::g1(t.atom_bytes(a)), refc::g1(t.atom_bytes(b)))),
            _ => break,
        }
    }
    if sigs.len() != 128 {
        crate::harness_error("range parameters: could not read 128 digit signatures from the encoding");
    }
    RangeRaw { pk, sigs }
}

fn build(spec: &str) -> MerchantCtx {
    // spec: "<key seed>" | "<key seed>/rev=<seed>" | "<key seed>/range=<seed>"
    let mut it = spec.split('/');
    let kseed: u64 = it.next().and_then(|s| s.parse().ok()).unwrap_or_else(|| crate::harness_error("bad merchant spec"));
    let mut rev_seed = kseed;
    let mut range_seed = kseed;
    for p in it {
        if let Some(s) = p.strip_prefix("rev=") {
            rev_seed = s.parse().unwrap_or_else(|_| crate::harness_error("bad merchant spec"));
        } else if let Some(s) = p.strip_prefix("range=") {
            range_seed = s.parse().unwrap_or_else(|_| crate::harness_error("bad merchant spec"));
        } else {
            crate::harness_error("bad merchant spec");
        }
    }
    let kp_bytes = raw_parts(kseed).0.clone();
    let rev_bytes = raw_parts(rev_seed).1.clone();
    let range_bytes = raw_parts(range_seed).2.clone();
    let de = |what: &str| -> ! { crate::harness_error(&format!("merchant context: own encoding of {} does not decode", what)) };
    let kp: KeyPair<5> = bincode::deserialize(&kp_bytes).unwrap_or_else(|_| de("KeyPair"));
    let rev: PedersenParameters<G1Projective, 1> = bincode::deserialize(&rev_bytes).unwrap_or_else(|_| de("PedersenParameters"));
    let range: RangeConstraintParameters = bincode::deserialize(&range_bytes).unwrap_or_else(|_| de("RangeConstraintParameters"));
    let cfg = merchant::Config::from_parts(kp, rev, range);
    let (pk, rev, range) = cfg.extract_customer_config_parts();
    let ccfg = customer::Config::from_parts(pk, rev, range);
    let kt = atoms::trace(cfg.signing_keypair());
    let rt = atoms::trace(cfg.revocation_commitment_parameters());
    let gt = atoms::trace(cfg.range_constraint_parameters());
    let ccfg_trace = atoms::trace(&ccfg);
    let ccfg_wire: customer::Config = bincode::deserialize(&ccfg_trace.bytes).unwrap_or_else(|_| de("customer::Config"));
    MerchantCtx {
        spec: spec.to_string(),
        pk: Pk::from_trace(&kt, "pk"),
        sk: Sk::from_trace(&kt, "sk"),
        rev_h: refc::g1(rt.get("h")),
        rev_g: refc::g1(rt.get("gs[0]")),
        range: range_raw(&gt),
        cfg,
        ccfg,
        ccfg_wire,
        kp_bytes,
        rev_bytes,
        range_bytes,
        ccfg_trace,
    }
}

pub fn merchant(spec: &str) -> &'static MerchantCtx {
    static C: OnceLock<Mutex<BTreeMap<String, &'static MerchantCtx>>> = OnceLock::new();
    let m = C.get_or_init(|| Mutex::new(BTreeMap::new()));
    if let Some(p) = m.lock().unwrap().get(spec) {
        return p;
    }
    let p: &'static MerchantCtx = Box::leak(Box::new(build(spec)));
    let mut g = m.lock().unwrap();
    *g.entry(spec.to_string()).or_insert(p)
}
