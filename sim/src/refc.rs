//! RefCrypto: reference relations and a raw Schnorr prover, written directly on `bls12_381`.
//! Used by Byzantine actors to build what the public API refuses to build, and by oracles to
//! confirm a violation with concrete evidence. Trusted base of the harness; pinned by the
//! accept-the-truth controls of each check.

use crate::atoms::Trace;
use bls12_381::{pairing, G1Affine, G1Projective, G2Affine, G2Projective, Scalar};
use ff::Field;
use group::{Curve, Group};
use sha3::{Digest, Sha3_256};

pub fn sc(bytes: &[u8]) -> Scalar {
    let mut b = [0u8; 32];
    b.copy_from_slice(bytes);
    let s: Option<Scalar> = Scalar::from_bytes(&b).into();
    match s {
        Some(s) => s,
        None => crate::harness_error("refc::sc: non-canonical scalar where a valid one was expected"),
    }
}
pub fn sc_opt(bytes: &[u8]) -> Option<Scalar> {
    if bytes.len() != 32 {
        return None;
    }
    let mut b = [0u8; 32];
    b.copy_from_slice(bytes);
    Scalar::from_bytes(&b).into()
}
pub fn scb(s: &Scalar) -> [u8; 32] {
    s.to_bytes()
}
pub fn g1(bytes: &[u8]) -> G1Projective {
    let mut b = [0u8; 48];
    b.copy_from_slice(bytes);
    let p: Option<G1Affine> = G1Affine::from_compressed(&b).into();
    match p {
        Some(p) => p.into(),
        None => crate::harness_error("refc::g1: invalid point where a valid one was expected"),
    }
}
pub fn g1b(p: &G1Projective) -> [u8; 48] {
    p.to_affine().to_compressed()
}
pub fn g2(bytes: &[u8]) -> G2Projective {
    let mut b = [0u8; 96];
    b.copy_from_slice(bytes);
    let p: Option<G2Affine> = G2Affine::from_compressed(&b).into();
    match p {
        Some(p) => p.into(),
        None => crate::harness_error("refc::g2: invalid point where a valid one was expected"),
    }
}
pub fn g2b(p: &G2Projective) -> [u8; 96] {
    p.to_affine().to_compressed()
}

/// Scalar from 32 little-endian bytes reduced mod q (as the crates do for channel ids and
/// challenges).
pub fn sc_raw(bytes: &[u8]) -> Scalar {
    let mut l = [0u64; 4];
    for i in 0..4 {
        let mut b = [0u8; 8];
        b.copy_from_slice(&bytes[8 * i..8 * i + 8]);
        l[i] = u64::from_le_bytes(b);
    }
    Scalar::from_raw(l)
}

pub fn close_tag() -> Scalar {
    Scalar::from_raw([0, 0, 0, u64::from_le_bytes(*b"\0\0\0CLOSE")])
}

pub fn amount_scalar(a: i128) -> Scalar {
    if a < 0 {
        -Scalar::from((-a) as u64)
    } else {
        Scalar::from(a as u64)
    }
}

/// Scalar for an arbitrary integer (possibly negative, possibly >= 2^64).
pub fn int_scalar(v: i128) -> Scalar {
    let neg = v < 0;
    let m = v.unsigned_abs();
    let lo = Scalar::from(m as u64);
    let hi = Scalar::from((m >> 64) as u64);
    let two64 = Scalar::from(u64::MAX) + Scalar::one();
    let s = hi * two64 + lo;
    if neg {
        -s
    } else {
        s
    }
}

/// Public key of a Pointcheval-Sanders key pair, as raw elements.
#[derive(Clone, Debug)]
pub struct Pk {
    pub g1: G1Projective,
    pub y1s: Vec<G1Projective>,
    pub g2: G2Projective,
    pub x2: G2Projective,
    pub y2s: Vec<G2Projective>,
}

#[derive(Clone, Debug)]
pub struct Sk {
    pub x: Scalar,
    pub ys: Vec<Scalar>,
    pub x1: G1Projective,
}

fn collect_indexed<T>(t: &Trace, prefix: &str, f: impl Fn(&[u8]) -> T) -> Vec<T> {
    let mut v = Vec::new();
    loop {
        let p = format!("{}[{}]", prefix, v.len());
        match t.find(&p) {
            Some(i) => v.push(f(t.atom_bytes(i))),
            None => break,
        }
    }
    v
}

impl Pk {
    /// Read a public key from a trace; `prefix` is the path of the key ("" or e.g. "pk").
    pub fn from_trace(t: &Trace, prefix: &str) -> Pk {
        let p = |s: &str| {
            if prefix.is_empty() {
                s.to_string()
            } else {
                format!("{}.{}", prefix, s)
            }
        };
        let pk = Pk {
            g1: g1(t.get(&p("g1"))),
            y1s: collect_indexed(t, &p("y1s"), g1),
            g2: g2(t.get(&p("g2"))),
            x2: g2(t.get(&p("x2"))),
            y2s: collect_indexed(t, &p("y2s"), g2),
        };
        if pk.y1s.is_empty() || pk.y1s.len() != pk.y2s.len() {
            crate::harness_error("Pk::from_trace: could not read y1s / y2s");
        }
        pk
    }
    pub fn n(&self) -> usize {
        self.y1s.len()
    }
}

impl Sk {
    pub fn from_trace(t: &Trace, prefix: &str) -> Sk {
        let p = |s: &str| {
            if prefix.is_empty() {
                s.to_string()
            } else {
                format!("{}.{}", prefix, s)
            }
        };
        let sk = Sk {
            x: sc(t.get(&p("x"))),
            ys: collect_indexed(t, &p("ys"), sc),
            x1: g1(t.get(&p("x1"))),
        };
        if sk.ys.is_empty() {
            crate::harness_error("Sk::from_trace: could not read ys");
        }
        sk
    }
}

pub fn commit_g1(h: &G1Projective, gs: &[G1Projective], bf: &Scalar, m: &[Scalar]) -> G1Projective {
    let mut acc = h * bf;
    for (g, mi) in gs.iter().zip(m.iter()) {
        acc += g * mi;
    }
    acc
}
pub fn commit_g2(h: &G2Projective, gs: &[G2Projective], bf: &Scalar, m: &[Scalar]) -> G2Projective {
    let mut acc = h * bf;
    for (g, mi) in gs.iter().zip(m.iter()) {
        acc += g * mi;
    }
    acc
}

/// The Pointcheval-Sanders verification relation.
pub fn ps_verify(pk: &Pk, m: &[Scalar], s1: &G1Projective, s2: &G1Projective) -> bool {
    if bool::from(s1.is_identity()) {
        return false;
    }
    if m.len() != pk.y2s.len() {
        return false;
    }
    let mut acc = pk.x2;
    for (y, mi) in pk.y2s.iter().zip(m.iter()) {
        acc += y * mi;
    }
    pairing(&s1.to_affine(), &acc.to_affine()) == pairing(&s2.to_affine(), &pk.g2.to_affine())
}

/// Blind signature on commitment `c` with the secret key: (g1^u, (X1 + c)^u).
pub fn blind_sign(pk: &Pk, sk: &Sk, c: &G1Projective, u: &Scalar) -> (G1Projective, G1Projective) {
    (pk.g1 * u, (sk.x1 + c) * u)
}
pub fn unblind(sig: &(G1Projective, G1Projective), bf: &Scalar) -> (G1Projective, G1Projective) {
    (sig.0, sig.1 - sig.0 * bf)
}
/// (sigma1, sigma2) -> 96 bytes, the wire form of `Signature` / `BlindedSignature`.
pub fn sig_bytes(sig: &(G1Projective, G1Projective)) -> Vec<u8> {
    let mut v = Vec::with_capacity(96);
    v.extend_from_slice(&g1b(&sig.0));
    v.extend_from_slice(&g1b(&sig.1));
    v
}
pub fn sig_from_bytes(b: &[u8]) -> (G1Projective, G1Projective) {
    (g1(&b[..48]), g1(&b[48..96]))
}

/// SHA3-256(secret || index) as a canonical scalar, if it is one.
pub fn rev_lock(secret: &[u8], index: u8) -> Option<Scalar> {
    let d = Sha3_256::new().chain(secret).chain([index]).finalize();
    sc_opt(d.as_ref())
}

/// One raw Schnorr "commitment proof" over explicit generators in G1.
#[derive(Clone, Debug)]
pub struct Raw1 {
    pub h: G1Projective,
    pub gs: Vec<G1Projective>,
    pub m: Vec<Scalar>,
    pub bf: Scalar,
    pub s_bf: Scalar,
    pub s: Vec<Scalar>,
    pub c: G1Projective,
    pub t: G1Projective,
}
impl Raw1 {
    pub fn new(
        h: G1Projective,
        gs: Vec<G1Projective>,
        m: Vec<Scalar>,
        bf: Scalar,
        s_bf: Scalar,
        s: Vec<Scalar>,
    ) -> Raw1 {
        let c = commit_g1(&h, &gs, &bf, &m);
        let t = commit_g1(&h, &gs, &s_bf, &s);
        Raw1 {
            h,
            gs,
            m,
            bf,
            s_bf,
            s,
            c,
            t,
        }
    }
    pub fn respond(&self, ch: &Scalar) -> (Scalar, Vec<Scalar>) {
        (
            ch * self.bf + self.s_bf,
            self.m.iter().zip(self.s.iter()).map(|(m, s)| ch * m + s).collect(),
        )
    }
}

/// Same over G2 (signature proofs commit in G2).
#[derive(Clone, Debug)]
pub struct Raw2 {
    pub h: G2Projective,
    pub gs: Vec<G2Projective>,
    pub m: Vec<Scalar>,
    pub bf: Scalar,
    pub s_bf: Scalar,
    pub s: Vec<Scalar>,
    pub c: G2Projective,
    pub t: G2Projective,
}
impl Raw2 {
    pub fn new(
        h: G2Projective,
        gs: Vec<G2Projective>,
        m: Vec<Scalar>,
        bf: Scalar,
        s_bf: Scalar,
        s: Vec<Scalar>,
    ) -> Raw2 {
        let c = commit_g2(&h, &gs, &bf, &m);
        let t = commit_g2(&h, &gs, &s_bf, &s);
        Raw2 {
            h,
            gs,
            m,
            bf,
            s_bf,
            s,
            c,
            t,
        }
    }
    pub fn respond(&self, ch: &Scalar) -> (Scalar, Vec<Scalar>) {
        (
            ch * self.bf + self.s_bf,
            self.m.iter().zip(self.s.iter()).map(|(m, s)| ch * m + s).collect(),
        )
    }
}

/// Blind and re-randomise a signature for a signature proof: (s1^r, (s2 + s1^bf)^r).
pub fn blind_and_randomize(
    sig: &(G1Projective, G1Projective),
    bf: &Scalar,
    r: &Scalar,
) -> (G1Projective, G1Projective) {
    (sig.0 * r, (sig.1 + sig.0 * bf) * r)
}

/// A scalar from a scheduler-provided 64-byte string (uniform).
pub fn sc_wide(bytes: &[u8]) -> Scalar {
    let mut b = [0u8; 64];
    b.copy_from_slice(&bytes[..64]);
    Scalar::from_bytes_wide(&b)
}

pub fn rand_scalar(s: &mut crate::rng::Sched) -> Scalar {
    let b = s.bytes(64);
    sc_wide(&b)
}
pub fn rand_nonzero(s: &mut crate::rng::Sched) -> Scalar {
    loop {
        let x = rand_scalar(s);
        if !bool::from(x.is_zero()) {
            return x;
        }
    }
}
pub fn rand_g1(s: &mut crate::rng::Sched) -> G1Projective {
    G1Projective::generator() * rand_nonzero(s)
}
pub fn rand_g2(s: &mut crate::rng::Sched) -> G2Projective {
    G2Projective::generator() * rand_nonzero(s)
}

/// Invalid / boundary encodings used as atom substitutes.
pub mod bad {
    use super::*;

    pub fn g1_identity() -> [u8; 48] {
        G1Affine::identity().to_compressed()
    }
    pub fn g2_identity() -> [u8; 96] {
        G2Affine::identity().to_compressed()
    }
    /// Compressed G1 encoding whose x is not on the curve.
    pub fn g1_off_curve() -> [u8; 48] {
        for k in 1u8..=255 {
            let mut b = [0u8; 48];
            b[47] = k;
            b[0] = 0x80;
            let p: Option<G1Affine> = G1Affine::from_compressed_unchecked(&b).into();
            if p.is_none() {
                return b;
            }
        }
        crate::harness_error("no off-curve G1 x found")
    }
    /// Compressed encoding of a point on the curve but outside the prime-order subgroup.
    pub fn g1_non_subgroup() -> [u8; 48] {
        for k in 1u8..=255 {
            let mut b = [0u8; 48];
            b[47] = k;
            b[0] = 0x80;
            let p: Option<G1Affine> = G1Affine::from_compressed_unchecked(&b).into();
            if let Some(p) = p {
                if !bool::from(p.is_torsion_free()) && bool::from(p.is_on_curve()) {
                    return b;
                }
            }
        }
        crate::harness_error("no non-subgroup G1 point found")
    }
    pub fn g2_off_curve() -> [u8; 96] {
        for k in 1u8..=255 {
            let mut b = [0u8; 96];
            b[95] = k;
            b[0] = 0x80;
            let p: Option<G2Affine> = G2Affine::from_compressed_unchecked(&b).into();
            if p.is_none() {
                return b;
            }
        }
        crate::harness_error("no off-curve G2 x found")
    }
    pub fn g2_non_subgroup() -> [u8; 96] {
        for k in 1u8..=255 {
            let mut b = [0u8; 96];
            b[95] = k;
            b[0] = 0x80;
            let p: Option<G2Affine> = G2Affine::from_compressed_unchecked(&b).into();
            if let Some(p) = p {
                if !bool::from(p.is_torsion_free()) && bool::from(p.is_on_curve()) {
                    return b;
                }
            }
        }
        crate::harness_error("no non-subgroup G2 point found")
    }
    fn hex_be(h: &str) -> Vec<u8> {
        let h = if h.len() % 2 == 1 { format!("0{}", h) } else { h.to_string() };
        (0..h.len() / 2).map(|i| u8::from_str_radix(&h[2 * i..2 * i + 2], 16).unwrap()).collect()
    }
    /// Double-and-add with a big-endian integer (the points need not lie in the subgroup).
    fn mul_be_g1(p: &G1Projective, k: &[u8]) -> G1Projective {
        let mut acc = G1Projective::identity();
        for byte in k {
            for bit in (0..8).rev() {
                acc = acc.double();
                if (byte >> bit) & 1 == 1 {
                    acc += p;
                }
            }
        }
        acc
    }
    fn mul_be_g2(p: &G2Projective, k: &[u8]) -> G2Projective {
        let mut acc = G2Projective::identity();
        for byte in k {
            for bit in (0..8).rev() {
                acc = acc.double();
                if (byte >> bit) & 1 == 1 {
                    acc += p;
                }
            }
        }
        acc
    }
    const Q_HEX: &str = "73eda753299d7d483339d80809a1d80553bda402fffe5bfeffffffff00000001";
    /// A point of order 3 on the G1 curve (the G1 cofactor is divisible by 3): [q * h1/3] R.
    pub fn g1_torsion3() -> G1Projective {
        use std::sync::OnceLock;
        static T: OnceLock<G1Projective> = OnceLock::new();
        *T.get_or_init(|| {
            let h1_3 = hex_be("13242eaac71ca0722eaae38e55558e39");
            let q = hex_be(Q_HEX);
            for k in 1u8..=255 {
                let mut b = [0u8; 48];
                b[47] = k;
                b[0] = 0x80;
                let p: Option<G1Affine> = G1Affine::from_compressed_unchecked(&b).into();
                if let Some(p) = p {
                    let t = mul_be_g1(&mul_be_g1(&G1Projective::from(p), &h1_3), &q);
                    if !bool::from(t.is_identity()) {
                        if !bool::from((t + t + t).is_identity()) {
                            crate::harness_error("g1_torsion3: point is not of order 3");
                        }
                        return t;
                    }
                }
            }
            crate::harness_error("no order-3 G1 point found")
        })
    }
    /// A point of order 13 on the G2 curve (the G2 cofactor is divisible by 13): [q * h2/13] R.
    pub fn g2_torsion13() -> G2Projective {
        use std::sync::OnceLock;
        static T: OnceLock<G2Projective> = OnceLock::new();
        *T.get_or_init(|| {
            // 13^2 divides the cofactor: project onto the 13-part, then reduce to order exactly 13
            let h2_169 = hex_be("8d5fc7522f6c4d5a3c5663541d68b60a5f9bdc250555d81be2a9b0c6483045a5b213dcb71085945e0aef29c5e8629edf4046db800a8373336b3150941cfdd");
            let q = hex_be(Q_HEX);
            for k in 1u8..=255 {
                let mut b = [0u8; 96];
                b[95] = k;
                b[0] = 0x80;
                let p: Option<G2Affine> = G2Affine::from_compressed_unchecked(&b).into();
                if let Some(p) = p {
                    let mut t = mul_be_g2(&mul_be_g2(&G2Projective::from(p), &h2_169), &q);
                    if bool::from(t.is_identity()) {
                        continue;
                    }
                    for _ in 0..2 {
                        let t13 = mul_be_g2(&t, &[13]);
                        if bool::from(t13.is_identity()) {
                            return t;
                        }
                        t = t13;
                    }
                    crate::harness_error("g2_torsion13: 13-part of the curve group is larger than 13^2");
                }
            }
            crate::harness_error("no order-13 G2 point found")
        })
    }
    /// q (the scalar field modulus), little-endian: smallest non-canonical scalar encoding.
    pub fn scalar_q() -> [u8; 32] {
        // q - 1 is canonical; add one in little-endian.
        let mut b = (-Scalar::one()).to_bytes();
        for x in b.iter_mut() {
            let (v, c) = x.overflowing_add(1);
            *x = v;
            if !c {
                break;
            }
        }
        b
    }
    pub fn scalar_q_plus_1() -> [u8; 32] {
        let mut b = scalar_q();
        b[0] = b[0].wrapping_add(1);
        b
    }
    pub fn scalar_all_ones() -> [u8; 32] {
        [0xff; 32]
    }
}
