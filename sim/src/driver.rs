//! Batch driver: seeded case generation, parallel execution with index-ordered merging,
//! known-findings matching, minimisation, replay files and evidence.

use serde_json::{json, Value};
use std::collections::{BTreeMap, BTreeSet};
use std::panic::{catch_unwind, AssertUnwindSafe};
use std::sync::atomic::{AtomicBool, AtomicUsize, Ordering};
use std::sync::Mutex;
use std::time::Instant;

#[derive(Clone, Copy, Debug, PartialEq, Eq)]
pub enum Tier {
    Quick,
    Thorough,
}
impl Tier {
    pub fn name(self) -> &'static str {
        match self {
            Tier::Quick => "quick",
            Tier::Thorough => "thorough",
        }
    }
}

#[derive(Clone, Debug, PartialEq, Eq)]
pub struct Violation {
    pub class: String,
    pub site: String,
    pub detail: String,
}

#[derive(Clone, Debug, Default)]
pub struct Outcome {
    pub violations: Vec<Violation>,
    /// simulated events executed (logical ticks)
    pub events: u64,
    /// counters: faults fired per kind, probes, event kinds
    pub stats: BTreeMap<String, u64>,
    /// hash of the event-kind sequence (plan shape actually executed)
    pub shape: u64,
    /// a fault fired (or, for fault-free configurations, real progress was made)
    pub nontrivial: bool,
    /// abstract states / transitions visited (hashes)
    pub states: BTreeSet<u64>,
    pub transitions: BTreeSet<u64>,
    /// hash of the full event log (for determinism checks)
    pub log_hash: u64,
}

impl Outcome {
    pub fn bump(&mut self, k: &str) {
        *self.stats.entry(k.to_string()).or_insert(0) += 1;
    }
    pub fn add(&mut self, k: &str, n: u64) {
        *self.stats.entry(k.to_string()).or_insert(0) += n;
    }
    pub fn violate(&mut self, class: &str, site: &str, detail: String) {
        self.violations.push(Violation {
            class: class.to_string(),
            site: site.to_string(),
            detail,
        });
    }
}

pub struct CaseSet {
    /// cases enumerated up front (fault enumeration; always all executed unless the budget ends)
    pub enumerated: Vec<Value>,
    /// number of random cases wanted after the enumerated ones
    pub random: usize,
    /// true if `enumerated` covers a finite space completely and `random == 0`
    pub exhaustive: bool,
}

pub trait Prop: Sync {
    fn id(&self) -> &'static str;
    fn level(&self) -> &'static str;
    fn cases(&self, tier: Tier, seed: u64) -> CaseSet;
    fn random_case(&self, tier: Tier, seed: u64, idx: usize) -> Value;
    /// Execute one case. Must be a pure function of the case (and the code under test).
    fn run(&self, case: &Value) -> Outcome;
    /// Candidate simplifications of a case, simplest first.
    fn shrink(&self, _case: &Value) -> Vec<Value> {
        Vec::new()
    }
    fn rule(&self) -> String;
    fn assumptions(&self) -> Vec<String>;
    /// Probes that must be non-zero in a batch for the claim to mean anything (reach).
    fn required_probes(&self, _tier: Tier) -> Vec<&'static str> {
        Vec::new()
    }
    fn default_budget_s(&self, tier: Tier) -> u64 {
        match tier {
            Tier::Quick => 100,
            Tier::Thorough => 1200,
        }
    }
}

#[derive(Clone, Debug)]
pub struct Known {
    pub status: String,
    pub property: String,
    pub class: String,
    pub site: String,
    pub what: String,
}

pub fn load_known(verif_dir: &str) -> Vec<Known> {
    let p = format!("{}/known_findings.json", verif_dir);
    let txt = match std::fs::read_to_string(&p) {
        Ok(t) => t,
        Err(_) => return Vec::new(),
    };
    let v: Value = match serde_json::from_str(&txt) {
        Ok(v) => v,
        Err(e) => crate::harness_error(&format!("known_findings.json does not parse: {}", e)),
    };
    let mut out = Vec::new();
    if let Some(arr) = v.get("findings").and_then(|a| a.as_array()) {
        for f in arr {
            let g = |k: &str| f.get(k).and_then(|x| x.as_str()).unwrap_or("").to_string();
            out.push(Known {
                status: g("status"),
                property: g("property"),
                class: g("class"),
                site: g("site"),
                what: g("what"),
            });
        }
    }
    out
}

fn is_known(known: &[Known], prop: &str, v: &Violation) -> Option<Known> {
    known
        .iter()
        .find(|k| k.status == "known" && k.property == prop && k.class == v.class && k.site == v.site)
        .cloned()
}

thread_local! {
    pub static LAST_PANIC: std::cell::RefCell<Option<(String, String)>> = std::cell::RefCell::new(None);
}

pub fn install_panic_hook() {
    std::panic::set_hook(Box::new(|info| {
        let loc = info
            .location()
            .map(|l| format!("{}:{}", l.file(), l.line()))
            .unwrap_or_else(|| "unknown".to_string());
        let msg = if let Some(s) = info.payload().downcast_ref::<&str>() {
            s.to_string()
        } else if let Some(s) = info.payload().downcast_ref::<String>() {
            s.clone()
        } else {
            "non-string panic payload".to_string()
        };
        LAST_PANIC.with(|p| *p.borrow_mut() = Some((loc, msg)));
    }));
}

/// Put a panic record back (for a caller that took it only to look at it).
pub fn put_panic(loc: String, msg: String) {
    LAST_PANIC.with(|p| *p.borrow_mut() = Some((loc, msg)));
}

pub fn take_panic() -> (String, String) {
    LAST_PANIC
        .with(|p| p.borrow_mut().take())
        .unwrap_or_else(|| ("unknown".to_string(), "unknown".to_string()))
}

/// Strip the checkout prefix so that a panic site is stable across scratch copies.
pub fn normalise_loc(loc: &str) -> String {
    for marker in ["zkabacus-crypto/", "zkchannels-crypto/"] {
        if let Some(i) = loc.find(marker) {
            return loc[i..].to_string();
        }
    }
    loc.to_string()
}

pub fn is_repo_loc(loc: &str) -> bool {
    (loc.contains("zkabacus-crypto/") || loc.contains("zkchannels-crypto/")) && !loc.contains("/verif/")
}

/// Run a case, turning panics into violations (library code) or harness errors (harness code).
pub fn run_guarded(prop: &dyn Prop, case: &Value) -> Result<Outcome, String> {
    let r = catch_unwind(AssertUnwindSafe(|| prop.run(case)));
    match r {
        Ok(o) => Ok(o),
        Err(_) => {
            let (loc, msg) = take_panic();
            if msg.starts_with("HARNESS:") {
                return Err(format!("{} at {}", msg, loc));
            }
            if msg.contains(crate::rng::BUDGET_PANIC) {
                let mut o = Outcome::default();
                o.violate(
                    "entropy-livelock",
                    "draw-budget",
                    "an operation kept drawing from a faulty entropy source beyond the draw budget".into(),
                );
                return Ok(o);
            }
            // A panic anywhere else while executing library calls is a property-level failure of
            // the run (the library, or a dependency it drives, crashed); a panic located in the
            // harness sources is a harness bug.
            if loc.contains("sim/src/") || loc.contains("/verif/") {
                return Err(format!("HARNESS: panic in harness code at {}: {}", loc, msg));
            }
            let mut o = Outcome::default();
            o.violate("panic", &normalise_loc(&loc), format!("panic: {}", msg));
            Ok(o)
        }
    }
}

pub struct BatchResult {
    pub outcomes: BTreeMap<usize, (Value, Outcome)>,
    pub harness_errors: Vec<String>,
    pub wall_s: f64,
    pub total_cases: usize,
    pub exhaustive: bool,
}

pub fn threads() -> usize {
    std::env::var("VERIF_THREADS")
        .ok()
        .and_then(|s| s.parse().ok())
        .unwrap_or_else(|| std::thread::available_parallelism().map(|n| n.get()).unwrap_or(4))
        .max(1)
}

pub fn run_batch(prop: &dyn Prop, tier: Tier, seed: u64, budget_s: u64) -> BatchResult {
    let cs = prop.cases(tier, seed);
    let n_enum = cs.enumerated.len();
    let mut total = n_enum + cs.random;
    // deterministic cap (used by the determinism selftest): a prefix of the same case sequence
    let stride: usize = std::env::var("VERIF_CASE_STRIDE").ok().and_then(|s| s.parse().ok()).unwrap_or(1).max(1);
    if let Some(maxc) = std::env::var("VERIF_MAX_CASES").ok().and_then(|s| s.parse::<usize>().ok()) {
        total = total.min(maxc * stride);
    }
    let next = AtomicUsize::new(0);
    let stop = AtomicBool::new(false);
    let results: Mutex<BTreeMap<usize, (Value, Outcome)>> = Mutex::new(BTreeMap::new());
    let errors: Mutex<Vec<String>> = Mutex::new(Vec::new());
    let start = Instant::now();
    let nthreads = threads();
    std::thread::scope(|s| {
        for _ in 0..nthreads {
            s.spawn(|| loop {
                if stop.load(Ordering::SeqCst) {
                    break;
                }
                let i = next.fetch_add(stride, Ordering::SeqCst);
                if i >= total {
                    break;
                }
                if start.elapsed().as_secs() >= budget_s {
                    // Budget reached: cases already handed out finish, no new ones start.
                    break;
                }
                let case = if i < n_enum {
                    cs.enumerated[i].clone()
                } else {
                    prop.random_case(tier, seed, i - n_enum)
                };
                match run_guarded(prop, &case) {
                    Ok(o) => {
                        results.lock().unwrap().insert(i, (case, o));
                    }
                    Err(e) => {
                        errors.lock().unwrap().push(format!("case {}: {}\n  case = {}", i, e, case));
                        stop.store(true, Ordering::SeqCst);
                    }
                }
            });
        }
    });
    let outcomes = results.into_inner().unwrap();
    let done = outcomes.len();
    let total = if stride > 1 { (total + stride - 1) / stride } else { total };
    BatchResult {
        exhaustive: cs.exhaustive && done == total,
        outcomes,
        harness_errors: errors.into_inner().unwrap(),
        wall_s: start.elapsed().as_secs_f64(),
        total_cases: total,
    }
}

fn same_violation(o: &Outcome, v: &Violation) -> bool {
    o.violations.iter().any(|x| x.class == v.class && x.site == v.site)
}

/// Greedy minimisation: accept any candidate that still shows the same (class, site).
pub fn minimise(prop: &dyn Prop, case: &Value, v: &Violation, budget: usize) -> (Value, usize) {
    let mut cur = case.clone();
    let mut used = 0;
    let started = Instant::now();
    'outer: loop {
        let cands = prop.shrink(&cur);
        for c in cands {
            if used >= budget || started.elapsed().as_secs() > 40 {
                break 'outer;
            }
            if c == cur {
                continue;
            }
            used += 1;
            if let Ok(o) = run_guarded(prop, &c) {
                if same_violation(&o, v) {
                    cur = c;
                    continue 'outer;
                }
            }
        }
        break;
    }
    (cur, used)
}

pub fn verif_dir() -> String {
    std::env::var("VERIF_DIR").unwrap_or_else(|_| "/verif".to_string())
}

fn sanitize(s: &str) -> String {
    s.chars()
        .map(|c| if c.is_ascii_alphanumeric() || c == '-' || c == '_' { c } else { '_' })
        .collect::<String>()
        .chars()
        .take(60)
        .collect()
}

pub fn write_replay(prop: &dyn Prop, seed: u64, tier: Tier, case: &Value, v: &Violation, original_index: usize) -> String {
    let dir = format!("{}/replays", verif_dir());
    let _ = std::fs::create_dir_all(&dir);
    let path = format!(
        "{}/{}-{}-{}-{}.json",
        dir,
        prop.id(),
        seed,
        sanitize(&v.class),
        sanitize(&v.site)
    );
    let doc = json!({
        "property": prop.id(),
        "seed": seed,
        "tier": tier.name(),
        "case_index": original_index,
        "case": case,
        "expected": {"class": v.class, "site": v.site},
        "detail": v.detail,
    });
    if let Err(e) = std::fs::write(&path, serde_json::to_string_pretty(&doc).unwrap()) {
        crate::harness_error(&format!("cannot write replay file {}: {}", path, e));
    }
    path
}

/// Replay in a fresh process and confirm the same (class, site) appears.
pub fn replay_in_fresh_process(path: &str) -> bool {
    let exe = match std::env::current_exe() {
        Ok(e) => e,
        Err(_) => return false,
    };
    match std::process::Command::new(exe).arg("replay").arg(path).arg("--quiet").status() {
        Ok(st) => st.code() == Some(1),
        Err(_) => false,
    }
}

/// Replays in fresh processes until one reproduces (at most `max` attempts). More than one attempt
/// is only ever needed when the code under test consumes randomness the simulator does not own
/// (an ambient generator such as `thread_rng` inside a decoder): every seam the simulator does
/// own is a function of the replay file.
pub fn replay_attempts(path: &str, max: usize) -> Option<usize> {
    for k in 1..=max {
        if replay_in_fresh_process(path) {
            return Some(k);
        }
    }
    None
}

const REPLAY_ATTEMPTS: usize = 25;

fn note_nondeterministic(path: &str, attempts: usize) {
    if let Ok(txt) = std::fs::read_to_string(path) {
        if let Ok(mut doc) = serde_json::from_str::<Value>(&txt) {
            doc["replay_note"] = json!(format!(
                "reproduced at fresh-process attempt {} of at most {}: the code under test draws randomness that does not come from the generator it is handed; `check replay` retries in fresh processes",
                attempts, REPLAY_ATTEMPTS
            ));
            let _ = std::fs::write(path, serde_json::to_string_pretty(&doc).unwrap_or(txt));
        }
    }
}

pub fn check(prop: &dyn Prop, tier: Tier, seed: u64) -> i32 {
    let budget_s = std::env::var("VERIF_BUDGET_S")
        .ok()
        .and_then(|s| s.parse().ok())
        .unwrap_or_else(|| prop.default_budget_s(tier));
    println!(
        "zksim: property={} tier={} seed={} budget_s={} threads={}",
        prop.id(),
        tier.name(),
        seed,
        budget_s,
        threads()
    );
    let known = load_known(&verif_dir());
    let br = run_batch(prop, tier, seed, budget_s);
    // A harness error (failed positive control, layout drift) aborts the batch. If the cases that
    // did complete already show a violation, that is the more informative verdict and is reported
    // (exit 1) with the harness errors as notes; otherwise the check cannot judge (exit 2).
    let had_harness_errors = !br.harness_errors.is_empty();
    for e in &br.harness_errors {
        eprintln!("HARNESS-ERROR: {}", e);
    }
    if had_harness_errors && !br.outcomes.values().any(|(_, o)| !o.violations.is_empty()) {
        return 2;
    }

    // merge in index order
    let mut stats: BTreeMap<String, u64> = BTreeMap::new();
    let mut events = 0u64;
    let mut shapes: BTreeSet<u64> = BTreeSet::new();
    let mut nontrivial_shapes: BTreeSet<u64> = BTreeSet::new();
    let mut states: BTreeSet<u64> = BTreeSet::new();
    let mut transitions: BTreeSet<u64> = BTreeSet::new();
    let mut log_hash = 0u64;
    let mut found: Vec<(usize, Violation)> = Vec::new();
    let mut seen_sites: BTreeSet<(String, String)> = BTreeSet::new();
    for (i, (_case, o)) in &br.outcomes {
        events += o.events;
        for (k, n) in &o.stats {
            *stats.entry(k.clone()).or_insert(0) += n;
        }
        shapes.insert(o.shape);
        if o.nontrivial {
            nontrivial_shapes.insert(o.shape);
        }
        states.extend(o.states.iter().cloned());
        transitions.extend(o.transitions.iter().cloned());
        log_hash = crate::rng::mix(&[log_hash, o.log_hash]);
        for v in &o.violations {
            if seen_sites.insert((v.class.clone(), v.site.clone())) {
                found.push((*i, v.clone()));
            }
        }
    }

    // reach: required probes
    let mut missing = Vec::new();
    let complete = br.outcomes.len() == br.total_cases;
    if complete {
        for p in prop.required_probes(tier) {
            if stats.get(p).cloned().unwrap_or(0) == 0 {
                missing.push(p);
            }
        }
    }

    let mut exit = 0;
    let mut n_viol = 0;
    let mut known_lines = Vec::new();
    let mut viol_lines = Vec::new();
    for (idx, v) in &found {
        if let Some(k) = is_known(&known, prop.id(), v) {
            known_lines.push(format!(
                "KNOWN-FINDING: property={} {} [class={} site={}]",
                prop.id(),
                k.what,
                v.class,
                v.site
            ));
            continue;
        }
        n_viol += 1;
        if viol_lines.len() >= 8 {
            continue;
        }
        let case = &br.outcomes[idx].0;
        let (min_case, used) = minimise(prop, case, v, 120);
        let mut path = write_replay(prop, seed, tier, &min_case, v, *idx);
        let mut reproduced = replay_in_fresh_process(&path);
        if !reproduced {
            // ambient randomness in the code under test? the same file, more fresh processes
            if let Some(k) = replay_attempts(&path, REPLAY_ATTEMPTS - 1) {
                println!(
                    "  note: class={} site={} reproduced only at fresh-process attempt {}: the code under test draws randomness the simulator does not own",
                    v.class,
                    v.site,
                    k + 1
                );
                note_nondeterministic(&path, k + 1);
                reproduced = true;
            }
        }
        if !reproduced && &min_case != case {
            // Minimisation runs in this process. If the code under test keeps process-global state
            // (a static table, a once-cell), a shortened schedule may only fail here because an
            // earlier run already touched that state. The replay contract is a fresh process, so
            // fall back to the schedule as first seen and demand that *it* reproduces.
            println!(
                "  note: the minimised schedule for class={} site={} fails only in a process that ran other schedules before; reporting the unminimised schedule",
                v.class, v.site
            );
            path = write_replay(prop, seed, tier, case, v, *idx);
            reproduced = match replay_attempts(&path, REPLAY_ATTEMPTS) {
                Some(1) => true,
                Some(k) => {
                    note_nondeterministic(&path, k);
                    true
                }
                None => false,
            };
        }
        if !reproduced {
            eprintln!(
                "HARNESS-ERROR: violation class={} site={} (case {}) did not reproduce from its replay file {}",
                v.class, v.site, idx, path
            );
            return 2;
        }
        viol_lines.push(format!("VIOLATION property={} replay={}", prop.id(), path));
        println!(
            "  violation: class={} site={} case_index={} shrink_runs={} detail={}",
            v.class, v.site, idx, used, v.detail
        );
        exit = 1;
    }
    for l in &known_lines {
        println!("{}", l);
    }
    for l in &viol_lines {
        println!("{}", l);
    }

    // evidence
    let done = br.outcomes.len();
    let mut samples: Vec<Value> = Vec::new();
    for (i, (case, o)) in br.outcomes.iter() {
        if samples.len() >= 3 {
            break;
        }
        if o.nontrivial || *i == 0 {
            samples.push(json!({"case_index": i, "case": case, "events": o.events, "stats": o.stats}));
        }
    }
    if samples.is_empty() {
        if let Some((i, (case, o))) = br.outcomes.iter().next() {
            samples.push(json!({"case_index": i, "case": case, "events": o.events}));
        }
    }
    let runs_per_hour = if br.wall_s > 0.0 { (done as f64) * 3600.0 / br.wall_s } else { 0.0 };
    let faults: BTreeMap<&String, &u64> = stats.iter().filter(|(k, _)| k.starts_with("fault.")).collect();
    let probes: BTreeMap<&String, &u64> = stats.iter().filter(|(k, _)| k.starts_with("probe.")).collect();
    let evkinds: BTreeMap<&String, &u64> = stats.iter().filter(|(k, _)| k.starts_with("event.")).collect();
    let other: BTreeMap<&String, &u64> = stats
        .iter()
        .filter(|(k, _)| !k.starts_with("fault.") && !k.starts_with("probe.") && !k.starts_with("event."))
        .collect();
    let ev = json!({
        "property_id": prop.id(),
        "tier": tier.name(),
        "seed": seed,
        "level": prop.level(),
        "coverage": {
            "evaluations": done,
            "distinct_nontrivial": nontrivial_shapes.len(),
            "rule": prop.rule(),
            "samples": samples,
            "exhaustive": br.exhaustive,
            "cases_planned": br.total_cases,
            "cases_completed": done,
            "completed_is_prefix_of_seed_sequence": true,
            "simulated_events": events,
            "simulated_time_note": "logical ticks: one per executed event; the library has no clocks or timers",
            "distinct_shapes": shapes.len(),
            "states": states.len(),
            "transitions": transitions.len(),
            "faults_fired": faults,
            "probes": probes,
            "events_by_kind": evkinds,
            "counters": other,
            "runs_per_hour": runs_per_hour.round() as u64,
            "threads": threads(),
            "batch_log_hash": format!("{:016x}", log_hash),
            "missing_required_probes": missing,
            "known_findings_reported": known_lines.len(),
            "real_vs_stub": crate::REAL_VS_STUB,
        },
        "assumptions": prop.assumptions(),
        "wall_s": br.wall_s,
        "violations": n_viol,
    });
    let evdir = format!("{}/evidence", verif_dir());
    let _ = std::fs::create_dir_all(&evdir);
    let evpath = format!("{}/{}.json", evdir, prop.id());
    if let Err(e) = std::fs::write(&evpath, serde_json::to_string_pretty(&ev).unwrap()) {
        eprintln!("HARNESS-ERROR: cannot write evidence {}: {}", evpath, e);
        return 2;
    }
    println!(
        "zksim: property={} cases={}/{} events={} distinct_nontrivial={} violations={} known={} wall_s={:.1}",
        prop.id(),
        done,
        br.total_cases,
        events,
        nontrivial_shapes.len(),
        n_viol,
        known_lines.len(),
        br.wall_s
    );
    if exit == 0 && had_harness_errors {
        // only known findings were seen before the batch was aborted
        return 2;
    }
    if exit == 0 && !missing.is_empty() {
        eprintln!(
            "HARNESS-ERROR: required probes never fired: {:?} (workload or fault mix does not reach them)",
            missing
        );
        return 2;
    }
    exit
}

pub fn replay(props: &[Box<dyn Prop>], path: &str, quiet: bool) -> i32 {
    let txt = match std::fs::read_to_string(path) {
        Ok(t) => t,
        Err(e) => {
            eprintln!("HARNESS-ERROR: cannot read {}: {}", path, e);
            return 2;
        }
    };
    let doc: Value = match serde_json::from_str(&txt) {
        Ok(v) => v,
        Err(e) => {
            eprintln!("HARNESS-ERROR: {} does not parse: {}", path, e);
            return 2;
        }
    };
    let pid = doc["property"].as_str().unwrap_or("");
    let prop = match props.iter().find(|p| p.id() == pid) {
        Some(p) => p,
        None => {
            eprintln!("HARNESS-ERROR: unknown property {}", pid);
            return 2;
        }
    };
    let exp_class = doc["expected"]["class"].as_str().unwrap_or("").to_string();
    let exp_site = doc["expected"]["site"].as_str().unwrap_or("").to_string();
    match run_guarded(prop.as_ref(), &doc["case"]) {
        Err(e) => {
            eprintln!("HARNESS-ERROR: {}", e);
            2
        }
        Ok(o) => {
            let hit = o.violations.iter().find(|v| v.class == exp_class && v.site == exp_site);
            match hit {
                Some(v) => {
                    if !quiet {
                        println!("reproduced: class={} site={} detail={}", v.class, v.site, v.detail);
                        println!("VIOLATION property={} replay={}", pid, path);
                    }
                    1
                }
                None => {
                    if !quiet {
                        // a file that records a nondeterministic reproduction is retried in fresh
                        // processes (each attempt is one complete, independent replay)
                        if doc.get("replay_note").is_some() {
                            if let Some(k) = replay_attempts(path, REPLAY_ATTEMPTS) {
                                println!("reproduced at fresh-process attempt {} (the code under test draws randomness the simulator does not own)", k);
                                println!("VIOLATION property={} replay={}", pid, path);
                                return 1;
                            }
                        }
                        println!(
                            "not reproduced: expected class={} site={}; this run produced {:?}",
                            exp_class, exp_site, o.violations
                        );
                    }
                    0
                }
            }
        }
    }
}
