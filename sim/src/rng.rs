//! Entropy seam: a keyed, recording, fault-injecting random generator.
//!
//! Every `&mut impl Rng` handed to library code is a `SimRng`. Its stream is
//! ChaCha20 keyed by `(run seed, label)`, so a run is a pure function of one
//! integer; every draw is recorded (kind, length) and a *fault plan* can
//! replace the bytes returned at chosen draw indices.

use rand_chacha::ChaCha20Rng;
use rand_core::{CryptoRng, RngCore, SeedableRng};
use sha3::{Digest, Sha3_256};
use std::collections::BTreeMap;

#[derive(Clone, Copy, Debug, PartialEq, Eq)]
pub enum DrawKind {
    Fill(usize),
    U32,
    U64,
}

#[derive(Clone, Debug, PartialEq, Eq)]
pub enum EntropyFault {
    /// The draw returns all-zero bytes.
    Zeros,
    /// The draw returns these bytes (padded with zeros / truncated to the requested length).
    Bytes(Vec<u8>),
    /// The draw returns what the previous draw of the same kind returned (a stuck generator).
    RepeatPrevious,
    /// A 32-bit draw returns the previous 32-bit draw with its lowest bit flipped (after a repeated
    /// field-element draw this yields the NEGATION of the previous group element).
    RepeatPreviousFlipped,
    /// The generator reports failure: `try_fill_bytes` returns an error, the infallible calls panic
    /// with `ENTROPY_FAILURE` (what `OsRng` does when the system source is unavailable).
    Fail,
}

/// Panic payload of an infallible draw hit by `EntropyFault::Fail`.
pub const ENTROPY_FAILURE: &str = "SIMRNG_ENTROPY_SOURCE_FAILED";

/// Panic payload used when the per-operation draw budget is exhausted (livelock under fault).
pub const BUDGET_PANIC: &str = "SIMRNG_DRAW_BUDGET_EXHAUSTED";

pub struct SimRng {
    inner: ChaCha20Rng,
    pub draws: Vec<DrawKind>,
    pub faults: BTreeMap<usize, EntropyFault>,
    pub faults_fired: usize,
    pub budget: usize,
    last_fill: Vec<u8>,
    last_u32: u32,
}

pub fn key(seed: u64, label: &str) -> [u8; 32] {
    let mut h = Sha3_256::new();
    h.update(b"zksim-entropy-v1");
    h.update(seed.to_le_bytes());
    h.update(label.as_bytes());
    let mut k = [0u8; 32];
    k.copy_from_slice(h.finalize().as_ref());
    k
}

impl SimRng {
    pub fn new(seed: u64, label: &str) -> Self {
        SimRng {
            inner: ChaCha20Rng::from_seed(key(seed, label)),
            draws: Vec::new(),
            faults: BTreeMap::new(),
            faults_fired: 0,
            budget: 1 << 16,
            last_fill: Vec::new(),
            last_u32: 0,
        }
    }

    pub fn with_faults(seed: u64, label: &str, faults: BTreeMap<usize, EntropyFault>) -> Self {
        let mut r = Self::new(seed, label);
        r.faults = faults;
        r
    }

    /// A zero window of `width` draws starting at draw index `at`.
    pub fn zero_window(seed: u64, label: &str, at: usize, width: usize) -> Self {
        let mut f = BTreeMap::new();
        for i in at..at + width {
            f.insert(i, EntropyFault::Zeros);
        }
        Self::with_faults(seed, label, f)
    }

    fn tick(&mut self, kind: DrawKind) -> Option<EntropyFault> {
        let idx = self.draws.len();
        if idx >= self.budget {
            panic!("{}", BUDGET_PANIC);
        }
        self.draws.push(kind);
        let f = self.faults.get(&idx).cloned();
        if f.is_some() {
            self.faults_fired += 1;
        }
        f
    }
}

fn apply(fault: &EntropyFault, dest: &mut [u8]) {
    match fault {
        EntropyFault::Zeros => dest.iter_mut().for_each(|b| *b = 0),
        EntropyFault::Bytes(v) => {
            for (i, b) in dest.iter_mut().enumerate() {
                *b = *v.get(i).unwrap_or(&0);
            }
        }
        EntropyFault::RepeatPrevious | EntropyFault::RepeatPreviousFlipped => {}
        EntropyFault::Fail => panic!("{}", ENTROPY_FAILURE),
    }
}

impl RngCore for SimRng {
    fn next_u32(&mut self) -> u32 {
        // Always advance the underlying stream so that a fault does not shift later draws.
        let v = self.inner.next_u32();
        let out = match self.tick(DrawKind::U32) {
            None => v,
            Some(EntropyFault::RepeatPrevious) => self.last_u32,
            Some(EntropyFault::RepeatPreviousFlipped) => self.last_u32 ^ 1,
            Some(f) => {
                let mut b = [0u8; 4];
                apply(&f, &mut b);
                u32::from_le_bytes(b)
            }
        };
        self.last_u32 = out;
        out
    }
    fn next_u64(&mut self) -> u64 {
        let v = self.inner.next_u64();
        match self.tick(DrawKind::U64) {
            None => v,
            Some(f) => {
                let mut b = [0u8; 8];
                apply(&f, &mut b);
                u64::from_le_bytes(b)
            }
        }
    }
    fn fill_bytes(&mut self, dest: &mut [u8]) {
        self.inner.fill_bytes(dest);
        if let Some(f) = self.tick(DrawKind::Fill(dest.len())) {
            if f == EntropyFault::RepeatPrevious {
                if self.last_fill.len() == dest.len() {
                    dest.copy_from_slice(&self.last_fill);
                }
            } else {
                apply(&f, dest);
            }
        }
        self.last_fill = dest.to_vec();
    }
    fn try_fill_bytes(&mut self, dest: &mut [u8]) -> Result<(), rand_core::Error> {
        if self.faults.get(&self.draws.len()) == Some(&EntropyFault::Fail) {
            // the fallible call reports the failure instead of panicking; the buffer is untouched
            let mut sink = vec![0u8; dest.len()];
            self.inner.fill_bytes(&mut sink);
            let _ = self.tick(DrawKind::Fill(dest.len()));
            return Err(rand_core::Error::from(core::num::NonZeroU32::new(rand_core::Error::CUSTOM_START + 7).unwrap()));
        }
        self.fill_bytes(dest);
        Ok(())
    }
}
impl CryptoRng for SimRng {}

/// The scheduler's own stream (workload / interleaving / fault choices). Distinct type so that it
/// can never be handed to library code by accident.
pub struct Sched {
    inner: ChaCha20Rng,
}

impl Sched {
    pub fn new(seed: u64, label: &str) -> Self {
        let mut h = Sha3_256::new();
        h.update(b"zksim-sched-v1");
        h.update(seed.to_le_bytes());
        h.update(label.as_bytes());
        let mut k = [0u8; 32];
        k.copy_from_slice(h.finalize().as_ref());
        Sched {
            inner: ChaCha20Rng::from_seed(k),
        }
    }
    pub fn u64(&mut self) -> u64 {
        self.inner.next_u64()
    }
    /// Uniform in 0..n (n > 0).
    pub fn below(&mut self, n: u64) -> u64 {
        debug_assert!(n > 0);
        // rejection-free modulo is fine here: n is tiny compared with 2^64.
        self.inner.next_u64() % n
    }
    pub fn usize(&mut self, n: usize) -> usize {
        self.below(n as u64) as usize
    }
    pub fn chance(&mut self, num: u64, den: u64) -> bool {
        self.below(den) < num
    }
    pub fn pick<'a, T>(&mut self, xs: &'a [T]) -> &'a T {
        &xs[self.usize(xs.len())]
    }
    pub fn bytes(&mut self, n: usize) -> Vec<u8> {
        let mut v = vec![0u8; n];
        self.inner.fill_bytes(&mut v);
        v
    }
    /// Geometric count with success probability num/den per trial, capped.
    pub fn geometric(&mut self, num: u64, den: u64, cap: usize) -> usize {
        let mut k = 0;
        while k < cap && self.chance(num, den) {
            k += 1;
        }
        k
    }
}

/// Mix several integers into one run seed.
pub fn mix(parts: &[u64]) -> u64 {
    let mut h = Sha3_256::new();
    h.update(b"zksim-mix-v1");
    for p in parts {
        h.update(p.to_le_bytes());
    }
    let d = h.finalize();
    let mut b = [0u8; 8];
    b.copy_from_slice(&d[..8]);
    u64::from_le_bytes(b)
}
