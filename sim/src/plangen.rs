//! Seeded generation and minimisation of world plans.

use crate::rng::Sched;
use crate::world::*;

#[derive(Clone, Debug)]
pub struct Profile {
    pub channels: (usize, usize),
    pub payments: (usize, usize),
    /// geometric continuation probability (num/den) for faulty replies per reply point
    pub reply_fault: (u64, u64),
    pub max_faults: usize,
    pub lock_fault: (u64, u64),
    /// share (percent) of runs generated without any fault
    pub fault_free_pct: u64,
    pub merchants: Vec<String>,
    /// boundary-biased balances and amounts (else small ones)
    pub boundary: bool,
    pub wire: Option<bool>,
    pub crash: &'static str,
    pub random_stop: bool,
    /// cap on admissible (i.e. expensive) payments per channel
    pub max_admissible: usize,
}

impl Profile {
    pub fn honest(boundary: bool) -> Profile {
        Profile {
            channels: (1, 2),
            payments: (0, 6),
            reply_fault: (0, 1),
            max_faults: 0,
            lock_fault: (0, 1),
            fault_free_pct: 100,
            merchants: vec!["9001".into()],
            boundary,
            wire: Some(true),
            crash: "none",
            random_stop: false,
            max_admissible: 3,
        }
    }
    pub fn byzantine() -> Profile {
        Profile {
            channels: (1, 3),
            payments: (0, 4),
            reply_fault: (45, 100),
            max_faults: 4,
            lock_fault: (35, 100),
            fault_free_pct: 10,
            merchants: vec!["9001".into(), "9002".into()],
            boundary: false,
            wire: None,
            crash: "none",
            random_stop: true,
            max_admissible: 2,
        }
    }
}

pub const LATTICE: [u64; 8] = [0, 1, 2, 1 << 31, 1 << 32, 1 << 62, (1 << 63) - 2, (1 << 63) - 1];

fn gen_reply_fault(s: &mut Sched) -> ReplyFault {
    match s.usize(16) {
        0 | 1 => ReplyFault::Garbage,
        2 | 3 | 4 | 5 => {
            let slot = *s.pick(&[0usize, 1, 2, 3, 4, 3, 4]);
            let delta = *s.pick(&[1i64, -1, 1000, -1000, 1 << 40, i64::MAX]);
            ReplyFault::Shift { slot, delta }
        }
        6 | 7 => ReplyFault::WrongType,
        8 | 9 => ReplyFault::OtherKey,
        10 | 11 | 12 => ReplyFault::Replay { pick: s.u64() % 1000 },
        13 => ReplyFault::IdentityBytes,
        14 => ReplyFault::IdentityValue,
        _ => ReplyFault::AltTag { variant: s.usize(10) as u8 },
    }
}

fn gen_lock_fault(s: &mut Sched) -> LockFault {
    match s.usize(10) {
        0 | 1 => LockFault::NewStatePair,
        2 => LockFault::FreshPair,
        3 | 4 => LockFault::ForeignPair { pick: s.u64() % 1000 },
        5 | 6 => LockFault::WrongBf { mode: s.usize(3) as u8 },
        7 => {
            if s.chance(1, 2) {
                LockFault::CompensatedBf { pick: s.u64() % 1000 }
            } else {
                LockFault::OtherIndex
            }
        }
        _ => LockFault::Corrupt { field: s.usize(3) as u8 },
    }
}

fn gen_faults(s: &mut Sched, p: &Profile, enabled: bool) -> Vec<ReplyFault> {
    if !enabled {
        return Vec::new();
    }
    let k = s.geometric(p.reply_fault.0, p.reply_fault.1.max(1), p.max_faults);
    (0..k).map(|_| gen_reply_fault(s)).collect()
}

fn gen_amount(s: &mut Sched, c: i128, m: i128, boundary: bool) -> i64 {
    let clamp = |v: i128| -> i64 {
        if v > i64::MAX as i128 {
            i64::MAX
        } else if v < -(i64::MAX as i128) {
            -i64::MAX
        } else {
            v as i64
        }
    };
    if !boundary {
        return match s.usize(10) {
            0 => 0,
            1 => clamp(c),
            2 => clamp(-m),
            3 => clamp(c + 1),
            4 => clamp(-(m + 1)),
            5 | 6 => -(1 + s.below(20) as i64),
            _ => 1 + s.below(50) as i64,
        };
    }
    match s.usize(16) {
        0 => 0,
        1 => 1,
        2 => -1,
        3 => clamp(c),
        4 => clamp(-m),
        5 => clamp(c + 1),
        6 => clamp(-(m + 1)),
        7 => i64::MAX,
        8 => -i64::MAX,
        9 => clamp(MAXB - m),
        10 => clamp(-(MAXB - c)),
        11 => clamp(MAXB - m + 1),
        12 => clamp(if c > 0 { (s.u64() as i128) % (c + 1) } else { 0 }),
        13 => clamp(if m > 0 { -((s.u64() as i128) % (m + 1)) } else { 0 }),
        14 => (s.u64() >> 1) as i64,
        _ => 1 + s.below(1000) as i64,
    }
}

pub fn gen_plan(seed: u64, p: &Profile) -> Plan {
    let mut s = Sched::new(seed, "plangen");
    let fault_free = s.below(100) < p.fault_free_pct;
    let nch = p.channels.0 + s.usize(p.channels.1 - p.channels.0 + 1);
    let mut channels = Vec::new();
    for _ in 0..nch {
        let (cb, mb) = if p.boundary {
            if s.chance(3, 4) {
                (*s.pick(&LATTICE), *s.pick(&LATTICE))
            } else {
                (s.u64() >> 1, s.u64() >> (1 + s.usize(40)))
            }
        } else if s.chance(1, 4) {
            // large balances with small amounts: values beyond 2^32 / near 2^63 in every stage
            let c = *s.pick(&[1u64 << 32, (1 << 32) + 7, 1 << 40, 1 << 62, (1 << 63) - 1000]) + s.below(1000);
            // sometimes within a few units of the top, so that small refunds overflow the range
            let c = if s.chance(1, 3) { i64::MAX as u64 - s.below(16) } else { c };
            (c, *s.pick(&[0u64, 1 << 33, 1 << 50, 900]) + s.below(100))
        } else {
            (s.below(5000), s.below(500))
        };
        let npay = p.payments.0 + s.usize(p.payments.1 - p.payments.0 + 1);
        let (mut c, mut m) = (cb as i128, mb as i128);
        let mut payments = Vec::new();
        let mut admissible = 0;
        for _ in 0..npay {
            let mut a = gen_amount(&mut s, c, m, p.boundary);
            let (nc, nm) = (c - a as i128, m + a as i128);
            let ok = nc >= 0 && nc <= MAXB && nm >= 0 && nm <= MAXB;
            if ok && admissible >= p.max_admissible {
                // keep the run affordable: turn further payments into inadmissible ones
                a = if c < MAXB { clamp_i64(c + 1) } else { clamp_i64(-(m + 1)) };
            } else if ok {
                admissible += 1;
                c = nc;
                m = nm;
            }
            let with_faults = !fault_free;
            payments.push(PayPlan {
                amount: a,
                cs_faults: gen_faults(&mut s, p, with_faults),
                lock_faults: if with_faults {
                    let k = s.geometric(p.lock_fault.0, p.lock_fault.1.max(1), p.max_faults + 2);
                    (0..k).map(|_| gen_lock_fault(&mut s)).collect()
                } else {
                    Vec::new()
                },
                pt_faults: gen_faults(&mut s, p, with_faults),
            });
        }
        let (stop_at, stop_stage) = if p.random_stop && s.chance(3, 4) {
            if s.chance(1, 8) {
                (0, "inactive".to_string())
            } else if payments.is_empty() {
                (0, "ready".to_string())
            } else {
                let at = s.usize(payments.len());
                let st = *s.pick(&["ready", "started", "locked", "started", "locked"]);
                (at, st.to_string())
            }
        } else {
            (payments.len(), "ready".to_string())
        };
        channels.push(ChanPlan {
            merchant: s.usize(p.merchants.len()),
            cust_bal: cb,
            merch_bal: mb,
            est_cs_faults: gen_faults(&mut s, p, !fault_free),
            est_pt_faults: gen_faults(&mut s, p, !fault_free),
            payments,
            stop_at,
            stop_stage,
        });
    }
    // coinciding message slots: in a share of the channels the two balances are made equal, at
    // establishment or by the first payment (a separate stream, so that the rest of the plan is
    // what it would have been)
    let mut s2 = Sched::new(seed, "plangen/coincide");
    for ch in channels.iter_mut() {
        match s2.usize(8) {
            0 => ch.merch_bal = ch.cust_bal,
            1 => {
                let d = ch.cust_bal as i128 - ch.merch_bal as i128;
                if d != 0 && d % 2 == 0 {
                    if let Some(p0) = ch.payments.first_mut() {
                        p0.amount = clamp_i64(d / 2);
                    }
                }
            }
            2 | 3 => {
                // a balance that is round in the base-128 digits of the range constraint: 128^k,
                // 128^k +/- 1, 128^k + 128^(k-1) - 1, 127 * 128^k ... reached by the first payment
                let total = ch.cust_bal as i128 + ch.merch_bal as i128;
                let mut kmax = 0u32;
                while kmax < 8 && 128i128.pow(kmax + 1) <= total.min(MAXB) {
                    kmax += 1;
                }
                if kmax == 0 {
                    continue;
                }
                let k = 1 + s2.usize(kmax as usize) as u32;
                let base = 128i128.pow(k);
                let t = match s2.usize(6) {
                    0 => base,
                    1 => base - 1,
                    2 => base + 1,
                    3 => base + base / 128 - 1,
                    4 => 127 * base,
                    _ => base + s2.below(128) as i128,
                };
                let (c, m) = (ch.cust_bal as i128, ch.merch_bal as i128);
                let on_customer = s2.chance(1, 2);
                // amount that leaves the customer (or the merchant) with exactly t
                let a = if on_customer { c - t } else { t - m };
                let (nc, nm) = (c - a, m + a);
                if nc >= 0 && nm >= 0 && nc <= MAXB && nm <= MAXB {
                    if let Some(p0) = ch.payments.first_mut() {
                        p0.amount = clamp_i64(a);
                    }
                }
            }
            _ => {}
        }
    }
    let order: Vec<u8> = (0..16).map(|_| s.usize(8) as u8).collect();
    Plan {
        seed,
        merchants: p.merchants.clone(),
        channels,
        order,
        wire: p.wire.unwrap_or_else(|| s.chance(1, 2)),
        crash: p.crash.to_string(),
        crash_steps: Vec::new(),
        entropy: Vec::new(),
    }
}

fn clamp_i64(v: i128) -> i64 {
    if v > i64::MAX as i128 {
        i64::MAX
    } else if v < -(i64::MAX as i128) {
        -i64::MAX
    } else {
        v as i64
    }
}

#[derive(Clone, Copy)]
enum Slot {
    EstCs,
    EstPt,
    PayCs(usize),
    PayPt(usize),
}

fn faults_mut(q: &mut Plan, ci: usize, sl: Slot) -> &mut Vec<ReplyFault> {
    match sl {
        Slot::EstCs => &mut q.channels[ci].est_cs_faults,
        Slot::EstPt => &mut q.channels[ci].est_pt_faults,
        Slot::PayCs(pi) => &mut q.channels[ci].payments[pi].cs_faults,
        Slot::PayPt(pi) => &mut q.channels[ci].payments[pi].pt_faults,
    }
}

/// Candidate simplifications of a plan, simplest first.
pub fn shrink_plan(p: &Plan) -> Vec<Plan> {
    let mut out = Vec::new();
    // drop whole channels
    if p.channels.len() > 1 {
        for i in 0..p.channels.len() {
            let mut q = p.clone();
            q.channels.remove(i);
            q.crash_steps.retain(|(c, _)| *c != i);
            q.entropy.retain(|e| e.chan != i);
            for e in q.entropy.iter_mut() {
                if e.chan > i {
                    e.chan -= 1;
                }
            }
            for cs in q.crash_steps.iter_mut() {
                if cs.0 > i {
                    cs.0 -= 1;
                }
            }
            out.push(q);
        }
    }
    for (ci, c) in p.channels.iter().enumerate() {
        // drop trailing payments beyond the stop point, then the last payment
        if c.payments.len() > c.stop_at + 1 {
            let mut q = p.clone();
            q.channels[ci].payments.truncate(c.stop_at + 1);
            out.push(q);
        }
        if !c.payments.is_empty() {
            let mut q = p.clone();
            q.channels[ci].payments.pop();
            let n = q.channels[ci].payments.len();
            if q.channels[ci].stop_at >= n {
                q.channels[ci].stop_at = n;
                q.channels[ci].stop_stage = "ready".into();
            }
            out.push(q);
            // drop an inner payment
            for pi in 0..c.payments.len().saturating_sub(1) {
                let mut q = p.clone();
                q.channels[ci].payments.remove(pi);
                if q.channels[ci].stop_at > pi {
                    q.channels[ci].stop_at -= 1;
                }
                out.push(q);
            }
        }
        // drop all faults of a reply point, then individual faults
        let mut slots = vec![Slot::EstCs, Slot::EstPt];
        for pi in 0..c.payments.len() {
            slots.push(Slot::PayCs(pi));
            slots.push(Slot::PayPt(pi));
        }
        for sl in slots {
            let len = {
                let mut q = p.clone();
                faults_mut(&mut q, ci, sl).len()
            };
            if len > 0 {
                let mut q = p.clone();
                faults_mut(&mut q, ci, sl).clear();
                out.push(q);
                if len > 1 {
                    for fi in 0..len {
                        let mut q = p.clone();
                        let _ = faults_mut(&mut q, ci, sl).remove(fi);
                        out.push(q);
                    }
                }
            }
        }
        for pi in 0..c.payments.len() {
            let len = c.payments[pi].lock_faults.len();
            if len > 0 {
                let mut q = p.clone();
                q.channels[ci].payments[pi].lock_faults.clear();
                out.push(q);
                if len > 1 {
                    for fi in 0..len {
                        let mut q = p.clone();
                        q.channels[ci].payments[pi].lock_faults.remove(fi);
                        out.push(q);
                    }
                }
            }
            // simpler amounts
            for a in [0i64, 1, -1] {
                if c.payments[pi].amount != a {
                    let mut q = p.clone();
                    q.channels[ci].payments[pi].amount = a;
                    out.push(q);
                }
            }
        }
        // stop at the end
        if !(c.stop_stage == "ready" && c.stop_at == c.payments.len()) {
            let mut q = p.clone();
            q.channels[ci].stop_at = c.payments.len();
            q.channels[ci].stop_stage = "ready".into();
            out.push(q);
        }
        // simpler balances
        if c.cust_bal != 100 || c.merch_bal != 100 {
            let mut q = p.clone();
            q.channels[ci].cust_bal = 100;
            q.channels[ci].merch_bal = 100;
            out.push(q);
        }
    }
    if p.wire {
        let mut q = p.clone();
        q.wire = false;
        out.push(q);
    }
    if p.crash != "none" {
        let mut q = p.clone();
        q.crash = "none".into();
        q.crash_steps.clear();
        out.push(q);
        if p.crash == "steps" && p.crash_steps.len() > 1 {
            for i in 0..p.crash_steps.len() {
                let mut q = p.clone();
                q.crash_steps.remove(i);
                out.push(q);
            }
        }
    }
    if !p.entropy.is_empty() {
        let mut q = p.clone();
        q.entropy.clear();
        out.push(q);
        if p.entropy.len() > 1 {
            for i in 0..p.entropy.len() {
                let mut q = p.clone();
                q.entropy.remove(i);
                out.push(q);
            }
        }
        for i in 0..p.entropy.len() {
            if p.entropy[i].width > 1 {
                let mut q = p.clone();
                q.entropy[i].width -= 1;
                out.push(q);
            }
        }
    }
    if p.merchants.len() > 1 && p.channels.iter().all(|c| c.merchant == 0) {
        let mut q = p.clone();
        q.merchants.truncate(1);
        out.push(q);
    }
    out
}
