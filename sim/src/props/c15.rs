//! C15 — wire round-trips are lossless and decoded values satisfy every type invariant.
//!
//! Storage / in-flight corruption enumerated on atoms: every atom of every harvested encoding is
//! replaced by each invalid or boundary encoding; the real decoder must refuse, or the value it
//! returns must re-encode to exactly the bytes it consumed and satisfy its type's invariant.
//! A second case family runs whole protocol histories twice — objects handed over in process vs.
//! every hop encoded and decoded — and compares the histories (see world.rs).

use crate::atoms::{AtomKind, Trace};
use crate::driver::{CaseSet, Outcome, Prop, Tier};
use crate::harvest;
use crate::mutate;
use crate::refc;
use crate::rng::{mix, Sched};
use crate::types::registry;
use bls12_381::{G1Affine, G2Affine};
use serde_json::{json, Value};
use std::str::FromStr;
use zkabacus_crypto as za;

pub struct C15;
const MSPEC: &str = "9001";

fn key_family(ty: &str) -> bool {
    ty.starts_with("PublicKey")
        || ty.starts_with("KeyPair")
        || ty.starts_with("PedersenParameters")
        || ty == "RangeConstraintParameters"
        || ty == "customer::Config"
}

/// Invariants of an accepted encoding, read from its atoms (layout = layout of the honest sample).
pub fn check_invariants(o: &mut Outcome, ty: &str, t: &Trace, bytes: &[u8], what: &str) {
    let at = |i: usize| -> &[u8] {
        let a = &t.atoms[i];
        &bytes[a.off..a.off + a.len]
    };
    for (i, a) in t.atoms.iter().enumerate() {
        let b = at(i);
        let last = a.path.rsplit('.').next().unwrap_or("");
        match (a.kind, a.len) {
            (AtomKind::Bytes, 48) => {
                let mut x = [0u8; 48];
                x.copy_from_slice(b);
                let p: Option<G1Affine> = G1Affine::from_compressed(&x).into();
                match p {
                    None => o.violate(
                        "accepted-invalid-group-element",
                        &format!("{}:{}", ty, a.path),
                        format!("{}: decoder accepted a 48-byte atom that is not a canonical subgroup point", what),
                    ),
                    Some(p) => {
                        let ident = bool::from(p.is_identity());
                        if ident && (last.starts_with("sigma1") || (key_family(ty) && !last.starts_with("sigma2"))) {
                            o.violate(
                                "accepted-identity-element",
                                &format!("{}:{}", ty, a.path),
                                format!("{}: decoder accepted the identity where a generator / sigma1 is required", what),
                            );
                        }
                    }
                }
            }
            (AtomKind::Bytes, 96) => {
                let mut x = [0u8; 96];
                x.copy_from_slice(b);
                let p: Option<G2Affine> = G2Affine::from_compressed(&x).into();
                match p {
                    None => o.violate(
                        "accepted-invalid-group-element",
                        &format!("{}:{}", ty, a.path),
                        format!("{}: decoder accepted a 96-byte atom that is not a canonical subgroup point", what),
                    ),
                    Some(p) => {
                        if bool::from(p.is_identity()) && key_family(ty) {
                            o.violate(
                                "accepted-identity-element",
                                &format!("{}:{}", ty, a.path),
                                format!("{}: decoder accepted the G2 identity inside a key / parameter set", what),
                            );
                        }
                    }
                }
            }
            (AtomKind::Bytes, 32) => {
                if ty.starts_with("KeyPair") && a.path.starts_with("sk.") && b.iter().all(|x| *x == 0) {
                    o.violate(
                        "accepted-zero-secret-scalar",
                        &format!("{}:{}", ty, a.path),
                        format!("{}: decoder accepted a zero secret-key scalar", what),
                    );
                }
                if (last == "nonce" || ty == "Nonce") && b == refc::scb(&refc::close_tag()) {
                    o.violate(
                        "accepted-nonce-equal-close-tag",
                        &format!("{}:{}", ty, a.path),
                        format!("{}: decoder accepted a nonce equal to the close tag", what),
                    );
                }
                if last == "lock" || a.path == "lock" {
                    // a revocation pair: lock, secret.secret, secret.index
                    let prefix = &a.path[..a.path.len() - "lock".len()];
                    let sp = format!("{}secret.secret", prefix);
                    let ip = format!("{}secret.index", prefix);
                    if let (Some(si), Some(ii)) = (t.find(&sp), t.find(&ip)) {
                        let lock = refc::rev_lock(at(si), at(ii)[0]);
                        let ok = match lock {
                            Some(l) => refc::scb(&l) == b,
                            None => false,
                        };
                        if !ok {
                            o.violate(
                                "accepted-revocation-pair-mismatch",
                                &format!("{}:{}", ty, a.path),
                                format!("{}: decoder accepted a revocation pair whose lock is not SHA3(secret || index)", what),
                            );
                        }
                    }
                }
            }
            (AtomKind::U64, 8) => {
                let mut x = [0u8; 8];
                x.copy_from_slice(b);
                let v = u64::from_le_bytes(x);
                let is_balance = a.path.contains("balance") || ty == "CustomerBalance" || ty == "MerchantBalance";
                if is_balance && v > i64::MAX as u64 {
                    o.violate(
                        "accepted-balance-out-of-range",
                        &format!("{}:{}", ty, if a.path.is_empty() { "balance" } else { &a.path }),
                        format!("{}: decoder accepted balance {} > 2^63-1", what, v),
                    );
                }
            }
            _ => {}
        }
    }
}

fn in_process_decode(ty: usize, bytes: &[u8]) -> Result<Result<Vec<u8>, String>, String> {
    let entry = &registry().types[ty];
    let r = std::panic::catch_unwind(std::panic::AssertUnwindSafe(|| (entry.decode)(bytes)));
    match r {
        Ok(x) => Ok(x),
        Err(_) => {
            let (loc, msg) = crate::driver::take_panic();
            Err(format!("{} at {}", msg, loc))
        }
    }
}

impl Prop for C15 {
    fn id(&self) -> &'static str {
        "C15"
    }
    fn level(&self) -> &'static str {
        "fault_enumeration"
    }
    fn cases(&self, tier: Tier, seed: u64) -> CaseSet {
        let streams: u64 = match tier {
            Tier::Quick => 2,
            Tier::Thorough => 40,
        };
        let mut v = Vec::new();
        let mut sch = Sched::new(seed, "c15/cases");
        for stream in 0..streams {
            let h = harvest::cached(seed, stream, MSPEC);
            let mut seen: std::collections::BTreeMap<String, usize> = std::collections::BTreeMap::new();
            for (si, s) in h.iter().enumerate() {
                let c = seen.entry(s.ty.clone()).or_insert(0);
                *c += 1;
                let base = json!({"f": "atom", "hseed": seed, "stream": stream, "sample": si, "ty": s.ty});
                // fault-free round trip of every sample
                let mut c0 = base.clone();
                c0["m"] = mutate::none();
                v.push(c0);
                let big = s.trace.bytes.len() > 4000;
                if (*c > 1 && big) || *c > (if s.trace.bytes.len() < 200 { 20 } else { 3 }) {
                    continue;
                }
                // on later streams only a share of the big types' atoms (they dominate the cost)
                for (ai, a) in s.trace.atoms.iter().enumerate() {
                    if a.kind == AtomKind::SeqLen {
                        // a sequence announcing other lengths (with well-formed surplus elements
                        // inserted): if it decodes at all, it must re-encode to what was consumed
                        for (to, trail) in [("n+1", true), ("2n", true), ("n-1", false), ("n+1", false)] {
                            let mut c1 = base.clone();
                            c1["m"] = json!({"k": "seqlen", "atom": ai, "to": to, "trail": trail});
                            v.push(c1);
                        }
                        continue;
                    }
                    if big && stream > 0 && !sch.chance(1, 6) {
                        continue;
                    }
                    if big && tier == Tier::Quick && ai > 16 && !sch.chance(1, 10) {
                        continue;
                    }
                    for sub in mutate::substitutes_for(a.kind, a.len) {
                        if sub == "random" {
                            continue;
                        }
                        let mut c1 = base.clone();
                        c1["m"] = json!({"k": "atom", "atom": ai, "sub": sub, "r": mix(&[seed, stream, si as u64, ai as u64])});
                        v.push(c1);
                    }
                }
            }
            for n in [1u64, 2, 3, 5, 8, 13] {
                v.push(json!({"f": "lib-use", "n": n, "seed": mix(&[seed, 0xC15B, stream, n])}));
                for which in 0..=n {
                    v.push(json!({"f": "keypair-consistent", "hseed": seed, "stream": stream, "ty": format!("KeyPair<{}>", n), "which": which}));
                }
            }
            v.push(json!({"f": "verified-types", "seed": mix(&[seed, 0xC15F, stream])}));
            // channel id text form
            for k in 0..4u64 {
                v.push(json!({"f": "chanid-text", "hseed": seed, "stream": stream, "variant": k}));
            }
        }
        // wire-on vs wire-off differential histories
        let nworld = match tier {
            Tier::Quick => 24,
            Tier::Thorough => 1500,
        };
        for i in 0..nworld {
            v.push(json!({"f": "wire-diff", "seed": mix(&[seed, 0xC15, i as u64])}));
        }
        CaseSet { enumerated: v, random: 0, exhaustive: false }
    }
    fn random_case(&self, _tier: Tier, seed: u64, idx: usize) -> Value {
        json!({"f": "wire-diff", "seed": mix(&[seed, 0xC15F, idx as u64])})
    }
    fn run(&self, case: &Value) -> Outcome {
        let mut o = Outcome::default();
        match case["f"].as_str().unwrap_or("") {
            "atom" => run_atom(&mut o, case),
            "chanid-text" => run_chanid(&mut o, case),
            "keypair-consistent" => run_keypair_consistent(&mut o, case),
            "verified-types" => run_verified_types(&mut o, case["seed"].as_u64().unwrap_or(0)),
            "lib-use" => match case["n"].as_u64().unwrap_or(0) {
                1 => lib_use::<1>(&mut o, case["seed"].as_u64().unwrap_or(0)),
                2 => lib_use::<2>(&mut o, case["seed"].as_u64().unwrap_or(0)),
                3 => lib_use::<3>(&mut o, case["seed"].as_u64().unwrap_or(0)),
                5 => lib_use::<5>(&mut o, case["seed"].as_u64().unwrap_or(0)),
                8 => lib_use::<8>(&mut o, case["seed"].as_u64().unwrap_or(0)),
                13 => lib_use::<13>(&mut o, case["seed"].as_u64().unwrap_or(0)),
                _ => crate::harness_error("C15: bad N"),
            },
            "wire-diff" => crate::props::world_props::run_wire_diff(&mut o, case),
            _ => crate::harness_error("C15: bad case family"),
        }
        o
    }
    fn shrink(&self, case: &Value) -> Vec<Value> {
        if case["f"] == "wire-diff" {
            return crate::props::world_props::shrink_seeded_plan(case);
        }
        Vec::new()
    }
    fn rule(&self) -> String {
        "four case families. lib-use: for each N in {1,2,3,5,8,13} keys, parameters, signatures and proofs are decoded and used next to the originals (equality, same signature under the same entropy, same commitments, same challenges and verification results). atom: (harvested honest encoding of a registered type, one atom, one substitute from {identity, x off the curve, point outside the subgroup, other valid element, q, q+1, 2^256-1, close tag, zero, 2^63, 2^64-1, ...}) decoded with the real decoder, plus the fault-free round trip of every sample; chanid-text: print/parse of channel ids and malformed texts; wire-diff: one seeded protocol history executed with objects handed over in process and again with every hop and every stored stage encoded and decoded, histories compared byte for byte. Distinct = distinct (type, sample, atom, substitute) or distinct plan; non-trivial = a substitution was made or the history contains a completed payment".into()
    }
    fn assumptions(&self) -> Vec<String> {
        vec![
            "atoms of a mutated encoding are located with the layout of the honest sample (substitutions keep lengths)".into(),
            "every 48/96-byte atom of these crates is a compressed group element; 32-byte atoms are scalars unless the decoder round-trips them verbatim".into(),
            "bincode::deserialize allows trailing bytes; canonicity is checked against the consumed prefix".into(),
        ]
    }
    fn required_probes(&self, _tier: Tier) -> Vec<&'static str> {
        vec!["probe.refused", "probe.accepted_after_substitution", "probe.roundtrip_ok", "probe.wire_diff_payment_completed", "probe.lib_use_checked"]
    }
}

/// Does `T` have a decoder at all? (Inherent method when `T: DeserializeOwned`, trait fallback
/// otherwise - resolved at compile time for each concrete type below.)
struct DecProbe<T>(std::marker::PhantomData<T>);
trait NoDecoder {
    fn decoder(&self) -> Option<fn(&[u8]) -> bool> {
        None
    }
}
impl<T> NoDecoder for DecProbe<T> {}
impl<T: serde::de::DeserializeOwned> DecProbe<T> {
    fn decoder(&self) -> Option<fn(&[u8]) -> bool> {
        Some(|b| bincode::deserialize::<T>(b).is_ok())
    }
}

/// Types whose only invariant is "a proof about this value was verified" can only satisfy it by
/// being un-decodable: if one of them has a decoder, an honest but unproven commitment decodes
/// into a "verified" value.
fn run_verified_types(o: &mut Outcome, seed: u64) {
    let mut s = Sched::new(seed, "c15/verified-types");
    let unproven = refc::g1b(&refc::rand_g1(&mut s)).to_vec();
    let probes: Vec<(&str, Option<fn(&[u8]) -> bool>)> = vec![
        ("VerifiedBlindedMessage", DecProbe::<zkchannels_crypto::pointcheval_sanders::VerifiedBlindedMessage>(std::marker::PhantomData).decoder()),
        ("VerifiedBlindedState", DecProbe::<za::VerifiedBlindedState>(std::marker::PhantomData).decoder()),
    ];
    for (name, dec) in probes {
        o.events += 1;
        match dec {
            None => o.bump("probe.verified_type_has_no_decoder"),
            Some(d) => {
                o.bump("fault.wire.unproven-commitment-as-verified-value");
                if d(&unproven) {
                    o.violate("unverified-value-decodes-as-verified", name, format!("the 48-byte encoding of an arbitrary commitment decodes as {}: a value nobody proved anything about carries the 'verified' invariant", name));
                }
            }
        }
    }
    o.nontrivial = true;
    o.shape = mix(&[0xC15F, seed]);
    o.log_hash = mix(&[o.shape, o.violations.len() as u64]);
}

fn run_atom(o: &mut Outcome, case: &Value) {
    let seed = case["hseed"].as_u64().unwrap_or(0);
    let stream = case["stream"].as_u64().unwrap_or(0);
    let idx = case["sample"].as_u64().unwrap_or(0) as usize;
    let h = harvest::cached(seed, stream, MSPEC);
    if idx >= h.len() {
        crate::harness_error("C15: sample index out of range");
    }
    let s = &h[idx];
    let ty = registry().index(&s.ty);
    let m = &case["m"];
    let bytes = mutate::apply(&s.trace, m);
    let faulted = m["k"] != "none";
    o.events = 1;
    let what = format!("{} with {}", s.ty, mutate::describe(m));
    if faulted && m["k"] == "atom" {
        o.bump(&format!("fault.atom.{}", m["sub"].as_str().unwrap_or("?")));
    }
    let mut first = in_process_decode(ty, &bytes);
    if faulted && matches!(first, Ok(Err(_))) {
        // a decoder's verdict is a function of the bytes: the same refused encoding presented
        // again (same thread, right away) must be refused again
        o.bump("fault.wire.refused-encoding-presented-again");
        let again = in_process_decode(ty, &bytes);
        if matches!(again, Ok(Ok(_))) {
            let site = match m["atom"].as_u64() {
                Some(a) if m["k"] == "atom" => format!("{}:{}", s.ty, s.trace.atoms[a as usize].path),
                _ => s.ty.clone(),
            };
            o.violate("accepted-on-repeated-decode", &site, format!("{}: refused when first decoded, accepted when the same bytes are decoded again", what));
            first = again;
        }
    }
    match first {
        Err(_p) => {
            // a panicking decoder is C16's finding, not a wire-invariant violation
            o.bump("probe.decode_panicked");
        }
        Ok(Err(e)) => {
            if !faulted {
                o.violate("honest-encoding-rejected", &s.ty, format!("decoder refuses an honestly produced {}: {}", s.ty, e));
            } else {
                o.bump("probe.refused");
            }
        }
        Ok(Ok(reenc)) => {
            let length_changing = m["k"] == "seqlen";
            if length_changing {
                // layout differs from the honest sample: only canonicity can be judged
                o.bump("fault.atom.seqlen");
                if reenc.len() > bytes.len() || reenc[..] != bytes[..reenc.len()] {
                    o.violate(
                        "accepted-non-canonical-encoding",
                        &format!("{}:{}", s.ty, s.trace.atoms[m["atom"].as_u64().unwrap_or(0) as usize].path),
                        format!("{}: a sequence with an altered length prefix decodes and re-encodes to different bytes", what),
                    );
                } else {
                    o.bump("probe.accepted_after_substitution");
                }
                o.nontrivial = true;
                o.shape = mix(&[ty as u64, stream, idx as u64, crate::hash_str(&m.to_string())]);
                o.log_hash = mix(&[o.shape, o.violations.len() as u64]);
                return;
            }
            if reenc != bytes {
                let site = if faulted { format!("{}:{}", s.ty, s.trace.atoms[m["atom"].as_u64().unwrap_or(0) as usize].path) } else { s.ty.clone() };
                o.violate(
                    if faulted { "accepted-non-canonical-encoding" } else { "roundtrip-differs" },
                    &site,
                    format!("{}: decoded value re-encodes to different bytes", what),
                );
            } else if faulted {
                o.bump("probe.accepted_after_substitution");
            } else {
                o.bump("probe.roundtrip_ok");
            }
            check_invariants(o, &s.ty, &s.trace, &bytes, &what);
        }
    }
    o.nontrivial = faulted;
    o.shape = mix(&[ty as u64, stream, idx as u64, crate::hash_str(&m.to_string())]);
    o.log_hash = mix(&[o.shape, o.violations.len() as u64]);
}

/// Layer B: decoded keys, parameters, signatures and proofs behave exactly like the originals in
/// the operations that use them (same signatures under the same entropy, same commitments, same
/// verification results, same challenges).
fn lib_use<const N: usize>(o: &mut Outcome, seed: u64) {
    use crate::rng::SimRng;
    use bls12_381::{G1Projective, G2Projective};
    use zkchannels_crypto::{pedersen::*, pointcheval_sanders::*, proofs::*, Message};
    let mut rng = SimRng::new(seed, &format!("c15/lib-use/{}", N));
    let kp = KeyPair::<N>::new(&mut rng);
    let p1 = PedersenParameters::<G1Projective, N>::new(&mut rng);
    let p2 = PedersenParameters::<G2Projective, N>::new(&mut rng);
    let msg = Message::<N>::random(&mut rng);
    macro_rules! rt {
        ($v:expr, $ty:ty, $name:expr) => {{
            let b = crate::atoms::encode($v);
            match bincode::deserialize::<$ty>(&b) {
                Ok(x) => x,
                Err(e) => {
                    o.violate("honest-encoding-rejected", $name, format!("decoder refuses an honestly produced {}: {}", $name, e));
                    return;
                }
            }
        }};
    }
    let kp2 = rt!(&kp, KeyPair<N>, "KeyPair");
    let p1b = rt!(&p1, PedersenParameters<G1Projective, N>, "PedersenParameters<G1>");
    let p2b = rt!(&p2, PedersenParameters<G2Projective, N>, "PedersenParameters<G2>");
    o.events += 3;
    if kp2 != kp || p1b != p1 || p2b != p2 {
        o.violate("decoded-value-differs", "keys-and-parameters", format!("decode(encode(v)) != v for a key pair or Pedersen parameters (N = {})", N));
    }
    // same entropy, same signature
    let s1 = msg.sign(&mut SimRng::new(seed, "c15/lib-use/sign"), &kp);
    let s2 = msg.sign(&mut SimRng::new(seed, "c15/lib-use/sign"), &kp2);
    o.events += 2;
    if crate::atoms::encode(&s1) != crate::atoms::encode(&s2) {
        o.violate("decoded-value-behaves-differently", "KeyPair/sign", format!("a decoded key pair signs differently under the same entropy (N = {})", N));
    }
    let s1d = rt!(&s1, Signature, "Signature");
    if !s1.verify(kp.public_key(), &msg) || !s1d.verify(kp2.public_key(), &msg) {
        o.violate("decoded-value-behaves-differently", "Signature/verify", format!("a decoded signature / key does not verify where the original does (N = {})", N));
    }
    let bf = zkchannels_crypto::BlindingFactor::new(&mut rng);
    if crate::atoms::encode(&msg.commit(&p1, bf)) != crate::atoms::encode(&msg.commit(&p1b, bf)) || crate::atoms::encode(&msg.commit(&p2, bf)) != crate::atoms::encode(&msg.commit(&p2b, bf)) {
        o.violate("decoded-value-behaves-differently", "PedersenParameters/commit", format!("decoded Pedersen parameters commit differently (N = {})", N));
    }
    // proofs: decoded proof verifies under the challenge derived from it, and the challenge is the prover's
    let b = SignatureProofBuilder::generate_proof_commitments(&mut rng, msg.clone(), s1, &[None; N], kp.public_key());
    let c = ChallengeBuilder::new().with(&b).with(kp.public_key()).finish();
    let proof = b.generate_proof_response(c);
    let proof2 = rt!(&proof, SignatureProof<N>, "SignatureProof");
    let c2 = ChallengeBuilder::new().with(&proof2).with(kp2.public_key()).finish();
    o.events += 2;
    if c2.to_scalar() != c.to_scalar() || !proof2.verify_knowledge_of_signature(kp2.public_key(), c2) {
        o.violate("decoded-value-behaves-differently", "SignatureProof/verify", format!("a decoded signature proof does not verify under the decoded key (N = {})", N));
    }
    let rb = SignatureRequestProofBuilder::generate_proof_commitments(&mut rng, msg.clone(), &[None; N], kp.public_key());
    let rbf = rb.message_blinding_factor();
    let c = ChallengeBuilder::new().with(&rb).finish();
    let rp = rb.generate_proof_response(c);
    let rp2 = rt!(&rp, SignatureRequestProof<N>, "SignatureRequestProof");
    match (rp.verify_knowledge_of_opening(kp.public_key(), c), rp2.verify_knowledge_of_opening(kp2.public_key(), c)) {
        (Some(a), Some(bm)) => {
            let x = a.blind_sign(&kp, &mut SimRng::new(seed, "c15/lib-use/blind"));
            let y = bm.blind_sign(&kp2, &mut SimRng::new(seed, "c15/lib-use/blind"));
            let yd = rt!(&y, BlindedSignature, "BlindedSignature");
            if crate::atoms::encode(&x) != crate::atoms::encode(&y) || !yd.unblind(rbf).verify(kp2.public_key(), &msg) {
                o.violate("decoded-value-behaves-differently", "SignatureRequestProof/blind-sign", format!("blind signing through decoded objects differs (N = {})", N));
            }
        }
        _ => o.violate("decoded-value-behaves-differently", "SignatureRequestProof/verify", format!("a (decoded) signature request proof does not verify (N = {})", N)),
    }
    let cb = CommitmentProofBuilder::generate_proof_commitments(&mut rng, msg.clone(), &[None; N], &p2);
    let c = ChallengeBuilder::new().with(&cb).finish();
    let cp = cb.generate_proof_response(c);
    let cp2 = rt!(&cp, CommitmentProof<G2Projective, N>, "CommitmentProof<G2>");
    if !cp2.verify_knowledge_of_opening(&p2b, c) {
        o.violate("decoded-value-behaves-differently", "CommitmentProof/verify", format!("a decoded commitment proof does not verify under decoded parameters (N = {})", N));
    }
    o.bump("probe.lib_use_checked");
    o.nontrivial = true;
    o.shape = mix(&[0xC15B, N as u64, seed]);
    o.log_hash = mix(&[o.shape, o.violations.len() as u64]);
}

/// Several atoms of a key pair replaced *together* so that the two halves stay consistent with
/// each other while violating the invariant: y_k = 0 with Y_k = Y~_k = identity, or x = 0 with
/// X1 = X~ = identity. No such encoding may decode.
fn run_keypair_consistent(o: &mut Outcome, case: &Value) {
    let seed = case["hseed"].as_u64().unwrap_or(0);
    let stream = case["stream"].as_u64().unwrap_or(0);
    let h = harvest::cached(seed, stream, MSPEC);
    let tyname = case["ty"].as_str().unwrap_or("KeyPair<5>");
    let s = h.iter().find(|s| s.ty == tyname).unwrap_or_else(|| crate::harness_error("C15: no such key pair sample"));
    let ty = registry().index(&s.ty);
    let which = case["which"].as_u64().unwrap_or(0) as usize;
    let mut t = s.trace.clone();
    let zero = [0u8; 32];
    let n = (0..).take_while(|i| t.find(&format!("sk.ys[{}]", i)).is_some()).count();
    let what = if which >= n {
        t.set("sk.x", &zero);
        t.set("sk.x1", &refc::bad::g1_identity());
        t.set("pk.x2", &refc::bad::g2_identity());
        "x = 0, X1 = X~ = identity".to_string()
    } else {
        t.set(&format!("sk.ys[{}]", which), &zero);
        t.set(&format!("pk.y1s[{}]", which), &refc::bad::g1_identity());
        t.set(&format!("pk.y2s[{}]", which), &refc::bad::g2_identity());
        format!("y_{} = 0, Y_{} = Y~_{} = identity", which, which, which)
    };
    o.events = 1;
    o.bump("fault.atom.consistent-degenerate-key");
    match in_process_decode(ty, &t.bytes) {
        Ok(Ok(_)) => o.violate("accepted-zero-secret-scalar", &format!("{}:consistent-degenerate", strip_n(&s.ty)), format!("{} with {} decodes", s.ty, what)),
        Ok(Err(_)) => o.bump("probe.refused"),
        Err(_) => o.bump("probe.decode_panicked"),
    }
    o.nontrivial = true;
    o.shape = mix(&[0xC15C, ty as u64, stream, which as u64]);
    o.log_hash = mix(&[o.shape, o.violations.len() as u64]);
}

fn strip_n(t: &str) -> String {
    t.chars().filter(|c| !c.is_ascii_digit()).collect()
}

fn run_chanid(o: &mut Outcome, case: &Value) {
    let seed = case["hseed"].as_u64().unwrap_or(0);
    let stream = case["stream"].as_u64().unwrap_or(0);
    let variant = case["variant"].as_u64().unwrap_or(0);
    let h = harvest::cached(seed, stream, MSPEC);
    let s = h.iter().find(|s| s.ty == "ChannelId").unwrap_or_else(|| crate::harness_error("no ChannelId in harvest"));
    let mut raw = s.trace.bytes.clone();
    let mut sch = Sched::new(mix(&[seed, stream, variant]), "c15/chanid");
    if variant > 0 {
        raw = sch.bytes(32);
    }
    let cid: zkabacus_crypto::ChannelId = bincode::deserialize(&raw).unwrap_or_else(|_| crate::harness_error("ChannelId bytes do not decode"));
    let text = cid.to_string();
    o.events = 2;
    match zkabacus_crypto::ChannelId::from_str(&text) {
        Ok(back) => {
            if back.to_bytes() != cid.to_bytes() || back.to_bytes()[..] != raw[..] {
                o.violate("channel-id-text-roundtrip", "ChannelId", format!("parse(print(id)) differs from id for text {}", text));
            } else {
                o.bump("probe.roundtrip_ok");
            }
        }
        Err(e) => o.violate("channel-id-text-roundtrip", "ChannelId", format!("own text form `{}` does not parse: {}", text, e)),
    }
    // malformed texts must be refused, not panic and not be accepted as some other id
    let mut bad = vec![text[..text.len() - 2].to_string(), format!("{}AAAA", text.trim_end_matches('=')), "".to_string(), "!!!not base64!!!".to_string()];
    bad.push(text.replace(|c: char| c.is_ascii_alphabetic(), "*"));
    // well-formed base64 of other lengths (longer ids, much longer strings)
    for extra in [1usize, 3, 4, 16, 32, 100, 1000] {
        let mut b = raw.clone();
        b.extend_from_slice(&sch.bytes(extra));
        // reuse the crate's own text form for 32-byte prefixes; build the longer text by hand
        const T: &[u8; 64] = b"ABCDEFGHIJKLMNOPQRSTUVWXYZabcdefghijklmnopqrstuvwxyz0123456789+/";
        let mut t = String::new();
        for ch in b.chunks(3) {
            let n = (ch[0] as u32) << 16 | (*ch.get(1).unwrap_or(&0) as u32) << 8 | *ch.get(2).unwrap_or(&0) as u32;
            t.push(T[(n >> 18) as usize & 63] as char);
            t.push(T[(n >> 12) as usize & 63] as char);
            t.push(if ch.len() > 1 { T[(n >> 6) as usize & 63] as char } else { '=' });
            t.push(if ch.len() > 2 { T[n as usize & 63] as char } else { '=' });
        }
        bad.push(t);
    }
    for b in bad {
        o.bump("fault.text.malformed");
        let r = std::panic::catch_unwind(|| zkabacus_crypto::ChannelId::from_str(&b));
        match r {
            Err(_) => {
                let _ = crate::driver::take_panic();
                o.violate("channel-id-text-panic", "ChannelId::from_str", format!("parsing `{}` panicked", b));
            }
            Ok(Ok(x)) => {
                // accepted: must then be a 32-byte id that prints back to a canonical text that parses to itself
                let again = x.to_string();
                match zkabacus_crypto::ChannelId::from_str(&again) {
                    Ok(y) if y.to_bytes() == x.to_bytes() => {}
                    _ => o.violate("channel-id-text-roundtrip", "ChannelId", format!("accepted text `{}` does not round-trip", b)),
                }
            }
            Ok(Err(_)) => o.bump("probe.refused"),
        }
    }
    o.nontrivial = true;
    o.shape = mix(&[0xC1D, stream, variant]);
    o.log_hash = mix(&[o.shape, o.violations.len() as u64]);
}
