//! C16 — decoding untrusted bytes never panics, aborts or over-allocates.
//!
//! Every case is decoded in a supervised worker process (`zksim decode-worker`) under a
//! tracking, capped allocator; the byte stream is delivered either as a slice or through
//! `FaultyRead` (short reads, EINTR, EOF, I/O errors at scripted points).

use crate::atoms::AtomKind;
use crate::driver::{CaseSet, Outcome, Prop, Tier};
use crate::harvest;
use crate::mutate;
use crate::rng::{mix, Sched};
use crate::types::registry;
use serde_json::{json, Value};
use std::cell::RefCell;
use std::io::{Read, Write};
use std::process::{Child, ChildStdin, ChildStdout, Command, Stdio};

pub struct C16;

const MSPEC: &str = "9001";
pub const ALLOC_CAP: usize = 256 << 20;
const SLACK: usize = 1 << 20;

// ---------------------------------------------------------------- FaultyRead

#[derive(Clone, Copy, Debug)]
pub enum ReadOp {
    Short(u32),
    Interrupted,
    Eof,
    Error,
}

pub struct FaultyRead<'a> {
    data: &'a [u8],
    pos: usize,
    script: Vec<ReadOp>,
    step: usize,
    eof: bool,
    pub fired: [u32; 4],
}

impl<'a> FaultyRead<'a> {
    pub fn new(data: &'a [u8], script: Vec<ReadOp>) -> Self {
        FaultyRead { data, pos: 0, script, step: 0, eof: false, fired: [0; 4] }
    }
}

impl<'a> Read for FaultyRead<'a> {
    fn read(&mut self, buf: &mut [u8]) -> std::io::Result<usize> {
        if self.eof {
            return Ok(0);
        }
        let mut limit = buf.len();
        if self.step < self.script.len() {
            let op = self.script[self.step];
            self.step += 1;
            match op {
                ReadOp::Short(n) => {
                    self.fired[0] += 1;
                    limit = limit.min(n.max(1) as usize);
                }
                ReadOp::Interrupted => {
                    self.fired[1] += 1;
                    return Err(std::io::Error::new(std::io::ErrorKind::Interrupted, "simulated EINTR"));
                }
                ReadOp::Eof => {
                    self.fired[2] += 1;
                    self.eof = true;
                    return Ok(0);
                }
                ReadOp::Error => {
                    self.fired[3] += 1;
                    return Err(std::io::Error::new(std::io::ErrorKind::Other, "simulated I/O error"));
                }
            }
        }
        let n = limit.min(self.data.len() - self.pos);
        buf[..n].copy_from_slice(&self.data[self.pos..self.pos + n]);
        self.pos += n;
        Ok(n)
    }
}

fn script_from_json(v: &Value) -> Vec<ReadOp> {
    let mut out = Vec::new();
    if let Some(a) = v.as_array() {
        for e in a {
            let op = e[0].as_str().unwrap_or("");
            let arg = e[1].as_u64().unwrap_or(1) as u32;
            out.push(match op {
                "short" => ReadOp::Short(arg),
                "eintr" => ReadOp::Interrupted,
                "eof" => ReadOp::Eof,
                "err" => ReadOp::Error,
                _ => crate::harness_error("bad read op"),
            });
        }
    }
    out
}

// ---------------------------------------------------------------- worker process

fn read_exact_or_none(r: &mut impl Read, n: usize) -> Option<Vec<u8>> {
    let mut v = vec![0u8; n];
    match r.read_exact(&mut v) {
        Ok(()) => Some(v),
        Err(_) => None,
    }
}
fn read_u32(r: &mut impl Read) -> Option<u32> {
    read_exact_or_none(r, 4).map(|b| u32::from_le_bytes([b[0], b[1], b[2], b[3]]))
}

/// Child side. Request: u32 type, u32 len, bytes, u32 nops, nops x (u8 op, u32 arg).
/// nops == 0xffff_ffff means "decode from a slice". Response: u8 status (0 decoded, 1 error,
/// 2 panic), u64 largest allocation request, u32 msg len, msg, 4 x u32 read faults fired.
pub fn worker_main() -> i32 {
    crate::alloc::enable_tracking(ALLOC_CAP);
    let reg = registry();
    let stdin = std::io::stdin();
    let stdout = std::io::stdout();
    let mut inp = stdin.lock();
    let mut out = stdout.lock();
    loop {
        let ty = match read_u32(&mut inp) {
            Some(t) => t as usize,
            None => return 0,
        };
        let len = match read_u32(&mut inp) {
            Some(t) => t as usize,
            None => return 0,
        };
        let bytes = match read_exact_or_none(&mut inp, len) {
            Some(b) => b,
            None => return 0,
        };
        let nops = match read_u32(&mut inp) {
            Some(t) => t,
            None => return 0,
        };
        let mut script = None;
        let json_mode = nops == u32::MAX - 1;
        if nops != u32::MAX && !json_mode {
            let mut ops = Vec::new();
            for _ in 0..nops {
                let b = match read_exact_or_none(&mut inp, 5) {
                    Some(b) => b,
                    None => return 0,
                };
                let arg = u32::from_le_bytes([b[1], b[2], b[3], b[4]]);
                ops.push(match b[0] {
                    0 => ReadOp::Short(arg),
                    1 => ReadOp::Interrupted,
                    2 => ReadOp::Eof,
                    _ => ReadOp::Error,
                });
            }
            script = Some(ops);
        }
        if ty >= reg.types.len() {
            return 3;
        }
        let entry = &reg.types[ty];
        let mut fired = [0u32; 4];
        crate::alloc::reset_max();
        let res = std::panic::catch_unwind(std::panic::AssertUnwindSafe(|| match script {
            None if json_mode => (entry.decode_json)(&bytes),
            None => (entry.decode)(&bytes),
            Some(ops) => {
                let mut fr = FaultyRead::new(&bytes, ops);
                let r = (entry.decode_from)(&mut fr);
                fired = fr.fired;
                r
            }
        }));
        let max = crate::alloc::max_request() as u64;
        let (status, msg): (u8, Vec<u8>) = match res {
            Ok(Ok(re)) => (0, re),
            Ok(Err(e)) => (1, e.into_bytes()),
            Err(_) => {
                let (loc, m) = crate::driver::take_panic();
                (2, format!("{}|{}", crate::driver::normalise_loc(&loc), m).into_bytes())
            }
        };
        let mut resp = Vec::with_capacity(msg.len() + 32);
        resp.push(status);
        resp.extend_from_slice(&max.to_le_bytes());
        resp.extend_from_slice(&(msg.len() as u32).to_le_bytes());
        resp.extend_from_slice(&msg);
        for f in fired {
            resp.extend_from_slice(&f.to_le_bytes());
        }
        if out.write_all(&resp).is_err() || out.flush().is_err() {
            return 0;
        }
    }
}

struct Worker {
    child: Child,
    stdin: ChildStdin,
    stdout: ChildStdout,
    /// deadline of the request in flight, watched by a helper thread that kills the worker when
    /// it passes (a decode that never returns)
    deadline: std::sync::Arc<std::sync::Mutex<Option<std::time::Instant>>>,
    timed_out: std::sync::Arc<std::sync::atomic::AtomicBool>,
    shutdown: std::sync::Arc<std::sync::atomic::AtomicBool>,
}

impl Drop for Worker {
    fn drop(&mut self) {
        self.shutdown.store(true, std::sync::atomic::Ordering::SeqCst);
        let _ = self.child.kill();
        let _ = self.child.wait();
    }
}

/// CPU-time allowance for one decode, measured on the worker process (`/proc/<pid>/stat`), so that
/// the verdict does not depend on how busy the machine is. The slowest legitimate decode of the
/// check (a mebibyte of G2 elements) takes about a second of CPU; the allowance is there to tell
/// "slow" from "does not return", not to measure.
const DECODE_DEADLINE_S: u64 = 25;
/// Wall-clock fallback for a decode that blocks without burning CPU.
const DECODE_WALL_DEADLINE_S: u64 = 900;

/// user + system CPU time of a process in clock ticks (100 per second on Linux).
fn cpu_ticks(pid: u32) -> Option<u64> {
    let st = std::fs::read_to_string(format!("/proc/{}/stat", pid)).ok()?;
    // the command name (field 2) may contain spaces: fields are counted after the last ')'
    let rest = &st[st.rfind(')')? + 1..];
    let f: Vec<&str> = rest.split_whitespace().collect();
    // rest starts at field 3: utime is field 14, stime field 15
    let ut: u64 = f.get(11)?.parse().ok()?;
    let stt: u64 = f.get(12)?.parse().ok()?;
    Some(ut + stt)
}

impl Worker {
    fn spawn() -> Worker {
        let exe = std::env::current_exe().unwrap_or_else(|_| crate::harness_error("current_exe"));
        let mut child = Command::new(exe)
            .arg("decode-worker")
            .stdin(Stdio::piped())
            .stdout(Stdio::piped())
            .stderr(Stdio::null())
            .spawn()
            .unwrap_or_else(|e| crate::harness_error(&format!("cannot spawn decode worker: {}", e)));
        let stdin = child.stdin.take().unwrap();
        let stdout = child.stdout.take().unwrap();
        let deadline = std::sync::Arc::new(std::sync::Mutex::new(None::<std::time::Instant>));
        let timed_out = std::sync::Arc::new(std::sync::atomic::AtomicBool::new(false));
        let shutdown = std::sync::Arc::new(std::sync::atomic::AtomicBool::new(false));
        let pid = child.id();
        {
            let (deadline, timed_out, shutdown) = (deadline.clone(), timed_out.clone(), shutdown.clone());
            std::thread::spawn(move || {
              // CPU ticks of the worker when the request in flight was first seen
              let mut seen: Option<(std::time::Instant, u64)> = None;
              loop {
                std::thread::sleep(std::time::Duration::from_millis(250));
                if shutdown.load(std::sync::atomic::Ordering::SeqCst) {
                    return;
                }
                let cur = *deadline.lock().unwrap_or_else(|e| e.into_inner());
                let due = match cur {
                    None => {
                        seen = None;
                        false
                    }
                    Some(d) => {
                        let now_ticks = cpu_ticks(pid).unwrap_or(0);
                        match seen {
                            Some((dd, t0)) if dd == d => now_ticks.saturating_sub(t0) > DECODE_DEADLINE_S * 100 || std::time::Instant::now() > d,
                            _ => {
                                seen = Some((d, now_ticks));
                                false
                            }
                        }
                    }
                };
                if due {
                    timed_out.store(true, std::sync::atomic::Ordering::SeqCst);
                    let _ = Command::new("kill").arg("-9").arg(pid.to_string()).status();
                    return;
                }
              }
            });
        }
        Worker { child, stdin, stdout, deadline, timed_out, shutdown }
    }
}

thread_local! {
    static WORKER: RefCell<Option<Worker>> = RefCell::new(None);
}

pub enum Decoded {
    Ok { reenc: Vec<u8>, max_alloc: u64, fired: [u32; 4] },
    Err { msg: String, max_alloc: u64, fired: [u32; 4] },
    Panic { loc: String, msg: String },
    Died { how: String },
    /// no answer within the allowance: the worker was killed by the watchdog
    Hung,
}

pub fn decode_in_worker(ty: usize, bytes: &[u8], script: Option<&[ReadOp]>) -> Decoded {
    decode_in_worker_mode(ty, bytes, script, false)
}

pub fn decode_in_worker_mode(ty: usize, bytes: &[u8], script: Option<&[ReadOp]>, json: bool) -> Decoded {
    WORKER.with(|w| {
        let mut w = w.borrow_mut();
        if w.is_none() {
            *w = Some(Worker::spawn());
        }
        let wk = w.as_mut().unwrap();
        let mut req = Vec::with_capacity(bytes.len() + 16);
        req.extend_from_slice(&(ty as u32).to_le_bytes());
        req.extend_from_slice(&(bytes.len() as u32).to_le_bytes());
        req.extend_from_slice(bytes);
        match script {
            None if json => req.extend_from_slice(&(u32::MAX - 1).to_le_bytes()),
            None => req.extend_from_slice(&u32::MAX.to_le_bytes()),
            Some(ops) => {
                req.extend_from_slice(&(ops.len() as u32).to_le_bytes());
                for op in ops {
                    let (c, a) = match op {
                        ReadOp::Short(n) => (0u8, *n),
                        ReadOp::Interrupted => (1, 0),
                        ReadOp::Eof => (2, 0),
                        ReadOp::Error => (3, 0),
                    };
                    req.push(c);
                    req.extend_from_slice(&a.to_le_bytes());
                }
            }
        }
        *wk.deadline.lock().unwrap_or_else(|e| e.into_inner()) = Some(std::time::Instant::now() + std::time::Duration::from_secs(DECODE_WALL_DEADLINE_S));
        let sent = wk.stdin.write_all(&req).is_ok() && wk.stdin.flush().is_ok();
        let mut ok = None;
        if sent {
            if let Some(h) = read_exact_or_none(&mut wk.stdout, 13) {
                let status = h[0];
                let mut mb = [0u8; 8];
                mb.copy_from_slice(&h[1..9]);
                let max_alloc = u64::from_le_bytes(mb);
                let mlen = u32::from_le_bytes([h[9], h[10], h[11], h[12]]) as usize;
                if let Some(msg) = read_exact_or_none(&mut wk.stdout, mlen) {
                    if let Some(fb) = read_exact_or_none(&mut wk.stdout, 16) {
                        let mut fired = [0u32; 4];
                        for i in 0..4 {
                            fired[i] = u32::from_le_bytes([fb[4 * i], fb[4 * i + 1], fb[4 * i + 2], fb[4 * i + 3]]);
                        }
                        ok = Some(match status {
                            0 => Decoded::Ok { reenc: msg, max_alloc, fired },
                            1 => Decoded::Err { msg: String::from_utf8_lossy(&msg).to_string(), max_alloc, fired },
                            _ => {
                                let s = String::from_utf8_lossy(&msg).to_string();
                                let mut it = s.splitn(2, '|');
                                let loc = it.next().unwrap_or("").to_string();
                                let m = it.next().unwrap_or("").to_string();
                                Decoded::Panic { loc, msg: m }
                            }
                        });
                    }
                }
            }
        }
        *wk.deadline.lock().unwrap_or_else(|e| e.into_inner()) = None;
        match ok {
            Some(d) => d,
            None if wk.timed_out.load(std::sync::atomic::Ordering::SeqCst) => {
                *w = None;
                Decoded::Hung
            }
            None => {
                // the worker died while this case was in flight
                let how = match wk.child.wait() {
                    Ok(st) => {
                        #[cfg(unix)]
                        {
                            use std::os::unix::process::ExitStatusExt;
                            match st.signal() {
                                Some(sig) => format!("killed by signal {}", sig),
                                None => format!("exit status {:?}", st.code()),
                            }
                        }
                        #[cfg(not(unix))]
                        {
                            format!("exit status {:?}", st.code())
                        }
                    }
                    Err(e) => format!("wait failed: {}", e),
                };
                *w = None;
                Decoded::Died { how }
            }
        }
    })
}

// ---------------------------------------------------------------- cases

/// A sequence of `count` valid elements (the same well-formed element repeated) behind a length
/// prefix that is true or lies.
fn bigvec(o: &mut Outcome, case: &Value) {
    let tyname = case["ty"].as_str().unwrap_or("");
    let ty = registry().index(tyname);
    let entry = &registry().types[ty];
    let count = case["count"].as_u64().unwrap_or(0);
    let mut sch = Sched::new(case["hseed"].as_u64().unwrap_or(0), "c16/bigvec");
    let elem: Vec<u8> = match tyname {
        "Vec<Scalar>" => crate::refc::scb(&crate::refc::rand_scalar(&mut sch)).to_vec(),
        "Vec<G1>" => crate::refc::g1b(&crate::refc::rand_g1(&mut sch)).to_vec(),
        "Vec<G2>" => crate::refc::g2b(&crate::refc::rand_g2(&mut sch)).to_vec(),
        _ => crate::harness_error("C16 bigvec: unknown element type"),
    };
    let prefix: u64 = match case["prefix"].as_str().unwrap_or("n") {
        "n" => count,
        "n+1" => count + 1,
        "2^32" => 1 << 32,
        "2^60" => 1 << 60,
        _ => u64::MAX,
    };
    let mut bytes = prefix.to_le_bytes().to_vec();
    for _ in 0..count {
        bytes.extend_from_slice(&elem);
    }
    o.events = 1;
    o.bump("fault.wire.long-sequence");
    let site = format!("decode/{}/long-sequence", tyname);
    // the decoded vector itself may take count * size_of::<element>() (with doubling growth)
    let bound = 4 * (count + 1) * 288 + 64 * bytes.len() as u64 + SLACK as u64;
    let _ = entry;
    match decode_in_worker(ty, &bytes, None) {
        Decoded::Ok { max_alloc, .. } => {
            if prefix != count {
                // whether a lying prefix is accepted is C15's question, not this property's
                o.bump("probe.long_sequence_lying_prefix_accepted");
            }
            if max_alloc > bound {
                o.violate("over-allocation", &site, format!("largest single allocation request {} bytes for {} input bytes (bound {})", max_alloc, bytes.len(), bound));
            }
            o.bump("probe.long_sequence_decoded");
        }
        Decoded::Err { max_alloc, .. } => {
            if prefix == count {
                // a decoder may cap sequence lengths: refusing is not a panic, abort or over-allocation
                o.bump("probe.long_valid_sequence_refused");
            }
            if max_alloc > bound {
                o.violate("over-allocation", &site, format!("largest single allocation request {} bytes for {} input bytes with length prefix {} (bound {})", max_alloc, bytes.len(), prefix, bound));
            }
            o.bump("probe.long_sequence_refused");
        }
        Decoded::Panic { loc, msg } => o.violate("decode-panic", &loc, format!("decoder panicked on {} valid elements behind the length prefix {}: {}", count, prefix, msg)),
        Decoded::Died { how } => o.violate("decode-abort", &site, format!("worker process died on {} valid elements behind the length prefix {} ({})", count, prefix, how)),
        Decoded::Hung => o.violate("decode-hang", &site, format!("the decoder used more than {} s of CPU time on this input without answering: the decode does not return", DECODE_DEADLINE_S)),
    }
    o.nontrivial = prefix != count;
    o.shape = mix(&[0xB16, ty as u64, count, prefix]);
    o.log_hash = mix(&[o.shape, o.violations.len() as u64]);
}

fn sample_by(case: &Value) -> (&'static harvest::Sample, usize) {
    let seed = case["hseed"].as_u64().unwrap_or(0);
    let stream = case["stream"].as_u64().unwrap_or(0);
    let idx = case["sample"].as_u64().unwrap_or(0) as usize;
    let h = harvest::cached(seed, stream, MSPEC);
    if idx >= h.len() {
        crate::harness_error("C16: sample index out of range");
    }
    let s = &h[idx];
    (s, registry().index(&s.ty))
}

fn read_scripts(sch: &mut Sched, len: usize) -> Vec<Value> {
    let mut v = Vec::new();
    // all-short reads of 1 byte, of drawn sizes, EINTR storms, EOF and error at drawn points
    v.push(json!([["short", 1], ["short", 1], ["short", 1], ["short", 1], ["short", 1], ["short", 1], ["short", 1], ["short", 1]]));
    let mut s = Vec::new();
    for _ in 0..(4 + sch.usize(12)) {
        match sch.usize(4) {
            0 => s.push(json!(["eintr", 0])),
            _ => s.push(json!(["short", 1 + sch.usize(len.max(2))])),
        }
    }
    v.push(Value::Array(s.clone()));
    let mut e = s.clone();
    e.truncate(sch.usize(s.len().max(1)));
    e.push(json!(["eof", 0]));
    v.push(Value::Array(e));
    let mut e = s;
    e.truncate(sch.usize(e.len().max(1)));
    e.push(json!(["err", 0]));
    v.push(Value::Array(e));
    v
}

// ---------------------------------------------------------------- JSON (a second serde format)

/// Token spans of a JSON text: (start, end, kind) with kind 's' string literal (including the
/// quotes), 'n' number, '[' array open.
fn json_tokens(b: &[u8]) -> Vec<(usize, usize, u8)> {
    let mut out = Vec::new();
    let mut i = 0;
    while i < b.len() {
        match b[i] {
            b'"' => {
                let st = i;
                i += 1;
                while i < b.len() && b[i] != b'"' {
                    if b[i] == b'\\' {
                        i += 1;
                    }
                    i += 1;
                }
                i += 1;
                out.push((st, i.min(b.len()), b's'));
            }
            b'-' | b'0'..=b'9' => {
                let st = i;
                while i < b.len() && (b[i] == b'-' || b[i] == b'+' || b[i] == b'.' || b[i] == b'e' || b[i] == b'E' || b[i].is_ascii_digit()) {
                    i += 1;
                }
                out.push((st, i, b'n'));
            }
            b'[' => {
                out.push((i, i + 1, b'['));
                i += 1;
            }
            _ => i += 1,
        }
    }
    out
}

fn json_mutate(json: &[u8], m: &Value) -> Vec<u8> {
    let toks = json_tokens(json);
    let k = m["tok"].as_u64().unwrap_or(0) as usize;
    let splice = |st: usize, en: usize, with: &[u8]| -> Vec<u8> {
        let mut v = json[..st].to_vec();
        v.extend_from_slice(with);
        v.extend_from_slice(&json[en..]);
        v
    };
    match m["k"].as_str().unwrap_or("") {
        "none" => json.to_vec(),
        "number" => {
            let nums: Vec<&(usize, usize, u8)> = toks.iter().filter(|t| t.2 == b'n').collect();
            if nums.is_empty() {
                return json.to_vec();
            }
            let t = nums[k % nums.len()];
            splice(t.0, t.1, m["with"].as_str().unwrap_or("0").as_bytes())
        }
        "string" => {
            let strs: Vec<&(usize, usize, u8)> = toks.iter().filter(|t| t.2 == b's').collect();
            if strs.is_empty() {
                // no string in the honest form: put one where a number is
                let nums: Vec<&(usize, usize, u8)> = toks.iter().filter(|t| t.2 == b'n').collect();
                if nums.is_empty() {
                    return json.to_vec();
                }
                let t = nums[k % nums.len()];
                return splice(t.0, t.1, "\"0é\"".as_bytes());
            }
            let t = strs[k % strs.len()];
            let inner = t.1.saturating_sub(t.0 + 2);
            let hostile: String = match m["with"].as_str().unwrap_or("") {
                "2byte" => {
                    // same byte length, a two-byte character straddling every even offset
                    let mut x = String::from("0");
                    while x.len() + 2 <= inner {
                        x.push('é');
                    }
                    while x.len() < inner {
                        x.push('0');
                    }
                    x
                }
                "3byte" => {
                    let mut x = String::new();
                    while x.len() + 3 <= inner {
                        x.push('€');
                    }
                    while x.len() < inner {
                        x.push('0');
                    }
                    x
                }
                "4byte" => {
                    let mut x = String::new();
                    while x.len() + 4 <= inner {
                        x.push('😀');
                    }
                    while x.len() < inner {
                        x.push('f');
                    }
                    x
                }
                "empty" => String::new(),
                "long" => "ab".repeat(50_000),
                "hexlike" => "zz".repeat(inner / 2 + 1),
                _ => "\\u0000".repeat(inner / 6 + 1),
            };
            let mut w = vec![b'"'];
            w.extend_from_slice(hostile.as_bytes());
            w.push(b'"');
            splice(t.0, t.1, &w)
        }
        "array" => {
            let outer = m["outer"].as_bool().unwrap_or(false);
            let arrs: Vec<&(usize, usize, u8)> = toks.iter().filter(|t| t.2 == b'[' && (!outer || matches!(json.get(t.1), Some(b'{') | Some(b'[')))).collect();
            if arrs.is_empty() {
                return json.to_vec();
            }
            let t = arrs[k % arrs.len()];
            let reps = m["n"].as_u64().unwrap_or(1) as usize;
            let mut ins = Vec::new();
            for _ in 0..reps {
                ins.extend_from_slice(b"0,");
            }
            splice(t.1, t.1, &ins)
        }
        "array-del" => {
            // remove the first n elements of the k-th array (a shorter sequence than the type holds)
            let outer = m["outer"].as_bool().unwrap_or(false);
            let arrs: Vec<&(usize, usize, u8)> = toks.iter().filter(|t| t.2 == b'[' && (!outer || matches!(json.get(t.1), Some(b'{') | Some(b'[')))).collect();
            if arrs.is_empty() {
                return json.to_vec();
            }
            let t = arrs[k % arrs.len()];
            let n = m["n"].as_u64().unwrap_or(1) as usize;
            // find the end of the n-th top-level element after the bracket
            let mut depth = 0i32;
            let mut i = t.1;
            let mut removed = 0;
            let mut in_str = false;
            while i < json.len() && removed < n {
                let c = json[i];
                if in_str {
                    if c == b'\\' {
                        i += 1;
                    } else if c == b'"' {
                        in_str = false;
                    }
                } else {
                    match c {
                        b'"' => in_str = true,
                        b'[' | b'{' => depth += 1,
                        b']' | b'}' => {
                            if depth == 0 {
                                break;
                            }
                            depth -= 1;
                        }
                        b',' if depth == 0 => removed += 1,
                        _ => {}
                    }
                }
                i += 1;
            }
            splice(t.1, i.min(json.len()), b"")
        }
        "trunc" => json[..(m["at"].as_u64().unwrap_or(0) as usize).min(json.len())].to_vec(),
        "nest" => {
            let n = m["n"].as_u64().unwrap_or(1000) as usize;
            let mut v = vec![b'['; n];
            v.extend_from_slice(json);
            v
        }
        "random" => {
            let mut s = Sched::new(m["r"].as_u64().unwrap_or(0), "c16/json/random");
            s.bytes(m["len"].as_u64().unwrap_or(8) as usize)
        }
        _ => crate::harness_error("bad json mutation"),
    }
}

fn json_cases(sch: &mut Sched, base: &Value, big: bool, quick: bool) -> Vec<Value> {
    let mut v = Vec::new();
    let mk = |m: Value| {
        let mut c = base.clone();
        c["fmt"] = json!("json");
        c["m"] = m;
        c["read"] = Value::Null;
        c
    };
    v.push(mk(json!({"k": "none"})));
    let ntok = if big { 3 } else { 8 };
    for _ in 0..ntok {
        let tok = sch.u64() % 4096;
        for with in ["-1", "256", "4294967296", "18446744073709551616", "1e400", "-0.5", "null", "\"x\"", "[]", "{}"] {
            if quick && big && sch.chance(2, 3) {
                continue;
            }
            v.push(mk(json!({"k": "number", "tok": tok, "with": with})));
        }
        for with in ["2byte", "3byte", "4byte", "empty", "long", "hexlike", "nul"] {
            v.push(mk(json!({"k": "string", "tok": tok, "with": with})));
        }
        for n in [1u64, 2, 100_000] {
            v.push(mk(json!({"k": "array", "tok": tok, "n": n})));
        }
        for n in [1u64, 3, 64, 100_000] {
            v.push(mk(json!({"k": "array-del", "tok": tok, "n": n})));
        }
    }
    // arrays of structures (the sequences of signatures, proofs, generators): shorter and longer
    for tok in 0..4u64 {
        for n in [1u64, 2, 64, 100_000] {
            v.push(mk(json!({"k": "array-del", "tok": tok, "n": n, "outer": true})));
        }
        v.push(mk(json!({"k": "array", "tok": tok, "n": 1, "outer": true})));
    }
    for _ in 0..4 {
        v.push(mk(json!({"k": "trunc", "at": sch.u64() % 5000})));
        v.push(mk(json!({"k": "random", "len": sch.u64() % 64, "r": sch.u64()})));
    }
    v.push(mk(json!({"k": "nest", "n": 200})));
    v.push(mk(json!({"k": "nest", "n": 100_000})));
    v
}

impl Prop for C16 {
    fn id(&self) -> &'static str {
        "C16"
    }
    fn level(&self) -> &'static str {
        "fault_enumeration"
    }
    fn cases(&self, tier: Tier, seed: u64) -> CaseSet {
        let streams: u64 = match tier {
            Tier::Quick => 1,
            Tier::Thorough => 12,
        };
        let mut v = Vec::new();
        let mut sch = Sched::new(seed, "c16/cases");
        for stream in 0..streams {
            let h = harvest::cached(seed, stream, MSPEC);
            // keep one sample per type per stream for the expensive types, all for cheap ones
            let mut seen: std::collections::BTreeMap<String, usize> = std::collections::BTreeMap::new();
            for (si, s) in h.iter().enumerate() {
                let c = seen.entry(s.ty.clone()).or_insert(0);
                *c += 1;
                if *c > 1 && s.trace.bytes.len() > 2000 {
                    continue;
                }
                if *c > (if s.trace.bytes.len() < 200 { 20 } else { 2 }) {
                    continue;
                }
                let big = s.trace.bytes.len() > 4000;
                let base = json!({"hseed": seed, "stream": stream, "sample": si, "ty": s.ty});
                let mk = |m: Value, read: Value| {
                    let mut c = base.clone();
                    c["m"] = m;
                    c["read"] = read;
                    c
                };
                // fault-free through slice and through faulty readers
                v.push(mk(mutate::none(), Value::Null));
                for rs in read_scripts(&mut sch, s.trace.bytes.len()) {
                    v.push(mk(mutate::none(), rs));
                }
                let natoms = s.trace.atoms.len();
                for (ai, a) in s.trace.atoms.iter().enumerate() {
                    match a.kind {
                        AtomKind::SeqLen => {
                            for to in mutate::seqlen_targets() {
                                for trail in [false, true] {
                                    v.push(mk(json!({"k": "seqlen", "atom": ai, "to": to, "trail": trail}), Value::Null));
                                }
                            }
                            // one through a faulty reader as well
                            v.push(mk(
                                json!({"k": "seqlen", "atom": ai, "to": "n+1", "trail": true}),
                                json!([["short", 3], ["eintr", 0], ["short", 7]]),
                            ));
                        }
                        AtomKind::EnumTag | AtomKind::OptionTag => {
                            for to in [2u64, 3, 255, 0xffff_ffff] {
                                v.push(mk(json!({"k": "tag", "atom": ai, "to": to}), Value::Null));
                            }
                        }
                        _ => {
                            // sample atoms of very large encodings in quick
                            if big && tier == Tier::Quick && natoms > 60 && !sch.chance(1, 8) && ai > 12 {
                                continue;
                            }
                            for sub in mutate::substitutes_for(a.kind, a.len) {
                                if big && tier == Tier::Quick && sub != "identity" && sub != "q" && sub != "random" && !sch.chance(1, 3) {
                                    continue;
                                }
                                v.push(mk(json!({"k": "atom", "atom": ai, "sub": sub, "r": mix(&[seed, si as u64, ai as u64])}), Value::Null));
                            }
                        }
                    }
                    // truncation at this atom boundary
                    if !(big && tier == Tier::Quick && ai > 12 && !sch.chance(1, 8)) {
                        v.push(mk(json!({"k": "trunc", "at": a.off}), Value::Null));
                        if a.len > 1 {
                            v.push(mk(json!({"k": "trunc", "at": a.off + 1 + sch.usize(a.len - 1)}), Value::Null));
                        }
                    }
                }
                // several atoms at once: every byte-string atom of one length gets the same kind
                // of substitute (all generators the identity, all scalars q, ...)
                for alen in [32usize, 48, 96] {
                    if s.trace.atoms.iter().filter(|a| a.kind == AtomKind::Bytes && a.len == alen).count() < 2 {
                        continue;
                    }
                    for sub in mutate::substitutes_for(AtomKind::Bytes, alen) {
                        if big && tier == Tier::Quick && sub != "identity" && sub != "q" && sub != "zero" {
                            continue;
                        }
                        v.push(mk(json!({"k": "allatoms", "len": alen, "sub": sub, "r": mix(&[seed, si as u64, alen as u64])}), Value::Null));
                    }
                }
                // every group element at once, and drawn pairs of atoms (a G1 element and its G2
                // twin, two scalars, ...) with the same kind of substitute
                {
                    let grp: Vec<usize> = (0..natoms).filter(|&i| s.trace.atoms[i].kind == AtomKind::Bytes && (s.trace.atoms[i].len == 48 || s.trace.atoms[i].len == 96)).collect();
                    if grp.len() >= 2 {
                        for sub in ["identity", "nonsub", "offcurve"] {
                            v.push(mk(json!({"k": "atoms", "atoms": grp, "sub": sub, "r": mix(&[seed, si as u64, 0xA11])}), Value::Null));
                        }
                        // every (G1, G2) pair when there are few, a drawn share otherwise
                        let g1s: Vec<usize> = grp.iter().cloned().filter(|&i| s.trace.atoms[i].len == 48).collect();
                        let g2s: Vec<usize> = grp.iter().cloned().filter(|&i| s.trace.atoms[i].len == 96).collect();
                        let total = g1s.len() * g2s.len();
                        for &a in &g1s {
                            for &b2 in &g2s {
                                if total > 40 && !sch.chance(40, total as u64) {
                                    continue;
                                }
                                v.push(mk(json!({"k": "atoms", "atoms": [a, b2], "sub": "identity", "r": 0}), Value::Null));
                            }
                        }
                    }
                    let by: Vec<usize> = (0..natoms).filter(|&i| s.trace.atoms[i].kind == AtomKind::Bytes).collect();
                    if by.len() >= 2 {
                        for _ in 0..(if tier == Tier::Quick { 6 } else { 40 }) {
                            let a = by[sch.usize(by.len())];
                            let b2 = by[sch.usize(by.len())];
                            if a == b2 {
                                continue;
                            }
                            let sub = *sch.pick(&["identity", "zero", "q", "nonsub", "ones"]);
                            v.push(mk(json!({"k": "atoms", "atoms": [a, b2], "sub": sub, "r": sch.u64()}), Value::Null));
                        }
                    }
                }
                // truncation through a reader that hits EOF, extension, random strings, bit flips
                let len = s.trace.bytes.len();
                v.push(mk(json!({"k": "trunc", "at": sch.usize(len.max(1))}), json!([["short", 5], ["short", 1]])));
                v.push(mk(json!({"k": "extend", "n": 1 + sch.usize(64), "r": sch.u64()}), Value::Null));
                let nrand = if tier == Tier::Quick { 3 } else { 12 };
                for _ in 0..nrand {
                    let l = match sch.usize(4) {
                        0 => sch.usize(16),
                        1 => len,
                        2 => sch.usize(len.max(1)),
                        _ => len + sch.usize(64),
                    };
                    v.push(mk(json!({"k": "random", "len": l, "r": sch.u64()}), Value::Null));
                }
                if *c == 1 {
                    v.extend(json_cases(&mut sch, &base, big, tier == Tier::Quick));
                }
                let nflip = if tier == Tier::Quick { 4 } else { 24 };
                for _ in 0..nflip {
                    v.push(mk(json!({"k": "flip", "at": sch.usize(len.max(1)), "bit": sch.usize(8)}), Value::Null));
                }
            }
        }
        // long sequences: more than a mebibyte of VALID elements behind a true or a lying length
        // prefix (a decoder that caps its first allocation but trusts the prefix once the cap is
        // reached is only seen with that much real data)
        for (ty, per) in [("Vec<Scalar>", 32usize), ("Vec<G1>", 144), ("Vec<G2>", 288)] {
            let count = (1usize << 20) / per + 1 + sch.usize(64);
            for prefix in ["n", "n+1", "2^32", "2^60", "2^64-1"] {
                if tier == Tier::Quick && ty != "Vec<Scalar>" && prefix != "2^60" && prefix != "n" {
                    continue;
                }
                v.push(json!({"f": "bigvec", "ty": ty, "count": count, "prefix": prefix, "hseed": seed}));
            }
        }
        CaseSet { enumerated: v, random: 0, exhaustive: false }
    }
    fn random_case(&self, _tier: Tier, seed: u64, idx: usize) -> Value {
        json!({"hseed": seed, "stream": 0, "sample": 0, "ty": "", "m": {"k": "random", "len": idx % 64, "r": idx}, "read": null})
    }
    fn run(&self, case: &Value) -> Outcome {
        let mut o = Outcome::default();
        if case["f"] == "bigvec" {
            bigvec(&mut o, case);
            return o;
        }
        let (s, ty) = sample_by(case);
        let entry = &registry().types[ty];
        let m = &case["m"];
        if case["fmt"] == "json" {
            // the honest value in another serde format, mutated as text
            let honest = match (entry.to_json)(&s.trace.bytes) {
                Ok(j) => j,
                Err(_) => {
                    o.bump("probe.json_form_unavailable");
                    return o;
                }
            };
            let bytes = json_mutate(&honest, m);
            o.events = 1;
            o.bump(&format!("fault.json.{}", m["k"].as_str().unwrap_or("none")));
            let site = format!("decode-json/{}/{}", s.ty, m["k"].as_str().unwrap_or("none"));
            let bound = 2 * entry.size_of as u64 + 64 * bytes.len() as u64 + SLACK as u64;
            match decode_in_worker_mode(ty, &bytes, None, true) {
                Decoded::Ok { max_alloc, .. } | Decoded::Err { max_alloc, .. } => {
                    o.bump("probe.json_decode_returned");
                    if max_alloc > bound {
                        o.violate("over-allocation", &site, format!("largest single allocation request {} bytes while decoding {} bytes of JSON as {} (bound {})", max_alloc, bytes.len(), s.ty, bound));
                    }
                }
                Decoded::Panic { loc, msg } => o.violate("decode-panic", &loc, format!("decoder panicked while decoding JSON as {} with fault {}: {}", s.ty, m, msg)),
                Decoded::Died { how } => o.violate("decode-abort", &site, format!("worker process died while decoding JSON ({})", how)),
                Decoded::Hung => o.violate("decode-hang", &site, format!("the decoder used more than {} s of CPU time on this input without answering: the decode does not return", DECODE_DEADLINE_S)),
            }
            o.nontrivial = m["k"] != "none";
            o.shape = mix(&[ty as u64, 0x150, case["sample"].as_u64().unwrap_or(0), case["stream"].as_u64().unwrap_or(0), crate::hash_str(&m.to_string())]);
            o.log_hash = mix(&[o.shape, o.violations.len() as u64]);
            return o;
        }
        let bytes = mutate::apply(&s.trace, m);
        let script = if case["read"].is_null() { None } else { Some(script_from_json(&case["read"])) };
        let mdesc = mutate::describe(m);
        let _ = mdesc;
        let site = format!("decode/{}/{}", s.ty, m["k"].as_str().unwrap_or("none"));
        let bound = 2 * entry.size_of as u64 + 64 * bytes.len() as u64 + SLACK as u64;
        o.events = 1;
        o.bump(&format!("fault.wire.{}", m["k"].as_str().unwrap_or("none")));
        let d = decode_in_worker(ty, &bytes, script.as_deref());
        let check_alloc = |o: &mut Outcome, max_alloc: u64| {
            if max_alloc > bound {
                o.violate(
                    "over-allocation",
                    &site,
                    format!(
                        "largest single allocation request {} bytes while decoding {} input bytes as {} (bound {})",
                        max_alloc,
                        bytes.len(),
                        s.ty,
                        bound
                    ),
                );
            }
        };
        let count_fired = |o: &mut Outcome, fired: [u32; 4]| {
            o.add("fault.read.short", fired[0] as u64);
            o.add("fault.read.eintr", fired[1] as u64);
            o.add("fault.read.eof", fired[2] as u64);
            o.add("fault.read.error", fired[3] as u64);
        };
        match d {
            Decoded::Ok { reenc: _, max_alloc, fired } => {
                o.bump("probe.decoded_ok");
                check_alloc(&mut o, max_alloc);
                count_fired(&mut o, fired);
            }
            Decoded::Err { msg: _, max_alloc, fired } => {
                o.bump("probe.decode_refused");
                check_alloc(&mut o, max_alloc);
                count_fired(&mut o, fired);
            }
            Decoded::Panic { loc, msg } => {
                o.violate(
                    "decode-panic",
                    &loc,
                    format!("decoder panicked while decoding {} with fault {}: {}", s.ty, mutate::describe(m), msg),
                );
            }
            Decoded::Died { how } => {
                o.violate(
                    "decode-abort",
                    &site,
                    format!("worker process died while decoding ({}); allocation requests above {} bytes are refused, which aborts", how, ALLOC_CAP),
                );
            }
            Decoded::Hung => {
                o.violate("decode-hang", &site, format!("the decoder used more than {} s of CPU time on this input without answering: the decode does not return", DECODE_DEADLINE_S));
            }
        }
        o.nontrivial = m["k"].as_str().unwrap_or("none") != "none" || script.is_some();
        o.shape = mix(&[
            ty as u64,
            case["sample"].as_u64().unwrap_or(0),
            case["stream"].as_u64().unwrap_or(0),
            crate::hash_str(&m.to_string()),
            crate::hash_str(&case["read"].to_string()),
        ]);
        o.log_hash = mix(&[o.shape, o.violations.len() as u64]);
        o
    }
    fn shrink(&self, case: &Value) -> Vec<Value> {
        let mut v = Vec::new();
        if case["f"] == "bigvec" {
            return v;
        }
        if !case["read"].is_null() {
            let mut c = case.clone();
            c["read"] = Value::Null;
            v.push(c);
        }
        if case["m"]["k"] == "seqlen" && case["m"]["trail"] == true {
            let mut c = case.clone();
            c["m"]["trail"] = json!(false);
            v.push(c);
        }
        v
    }
    fn rule(&self) -> String {
        "one case = (harvested honest encoding of one registered Deserialize type or element codec, one wire fault, optional read-fault script). Wire faults: every sequence-length atom -> {0,n-1,n+1,2n,2^16,2^32,2^40,2^60,2^64-1} with and without a well-formed trailing element; enum/option tags out of range; every atom -> each invalid/boundary encoding and random bytes; truncation at every atom boundary and inside atoms; extension; random strings; bit flips. Read faults: short reads, EINTR, EOF, I/O error. A second format: the same values as JSON text (serde_json), mutated as text (numbers out of range / of other types, hostile strings with multi-byte characters of the same byte length, arrays grown by 1..100000 elements, truncation, deep nesting, random bytes). Each case is decoded in a supervised worker process under a tracking allocator that refuses requests above 256 MiB. Distinct = distinct (type, sample, fault, script); non-trivial = a fault was injected".into()
    }
    fn assumptions(&self) -> Vec<String> {
        vec![
            "decoders are exercised through bincode (fixint, little-endian) and, as a second human-readable format, serde_json".into(),
            "allocation bound: largest single request <= 2*size_of::<T>() + 64*input_len + 1 MiB".into(),
            "the worker's allocator cap (256 MiB) turns a huge pre-allocation into an abort that is attributed to the case in flight".into(),
        ]
    }
    fn required_probes(&self, _tier: Tier) -> Vec<&'static str> {
        vec!["probe.decoded_ok", "probe.decode_refused", "fault.read.short", "fault.read.eintr", "fault.read.eof", "fault.read.error", "fault.wire.seqlen", "fault.wire.trunc", "fault.json.string", "fault.json.number", "probe.json_decode_returned", "fault.wire.allatoms", "fault.wire.atoms", "fault.wire.long-sequence", "probe.long_sequence_refused"]
    }
}
