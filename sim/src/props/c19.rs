//! C19 — generated keys and parameters are well-formed for every randomness stream.
//!
//! Entropy-seam fault enumeration: a fault-free execution of each generator records its draw
//! points; the generator is then re-executed once per (draw point, window width) with an
//! all-zero window injected there.

use crate::atoms::{self, Trace};
use crate::driver::{CaseSet, Outcome, Prop, Tier};
use crate::refc::{self, Pk, Sk};
use crate::rng::{mix, Sched, SimRng};
use bls12_381::{pairing, G1Projective, G2Projective, Scalar};
use ff::Field;
use group::{Curve, Group};
use serde::{de::DeserializeOwned, Serialize};
use serde_json::{json, Value};
use zkchannels_crypto::{
    pedersen::PedersenParameters, pointcheval_sanders::KeyPair, proofs::RangeConstraintParameters, Message,
};

pub struct C19;

const NS: [usize; 6] = [1, 2, 3, 5, 8, 13];

fn label(gen: &str, n: usize, stream: u64) -> String {
    format!("c19/{}/{}/{}", gen, n, stream)
}

/// Scalars (little-endian hex) to be returned by the generator's 64-byte draws, in order.
fn crafted_rng(seed: u64, gen: &str, n: usize, stream: u64, scalars: &[Scalar]) -> SimRng {
    let l = label(gen, n, stream);
    // find the 64-byte draw points from a fault-free execution of the same stream
    let d = baseline_draws_list(seed, gen, n, stream);
    let idx: Vec<usize> = (0..d.len()).filter(|&i| d[i] == crate::rng::DrawKind::Fill(64)).collect();
    let mut f = std::collections::BTreeMap::new();
    for (k, sc) in scalars.iter().enumerate() {
        if let Some(&i) = idx.get(k) {
            let mut b = sc.to_bytes().to_vec();
            b.extend_from_slice(&[0u8; 32]);
            f.insert(i, crate::rng::EntropyFault::Bytes(b));
        }
    }
    let mut r = SimRng::with_faults(seed, &l, f);
    r.budget = 1 << 14;
    r
}

fn make_rng(seed: u64, gen: &str, n: usize, stream: u64, fault: &Value) -> SimRng {
    let l = label(gen, n, stream);
    let mut r = if fault.is_null() {
        SimRng::new(seed, &l)
    } else {
        let at = fault["at"].as_u64().unwrap() as usize;
        let width = fault["width"].as_u64().unwrap() as usize;
        // multiples of the scalar modulus as 64-byte little-endian integers: non-zero bytes that
        // reduce to the zero scalar
        let q = refc::bad::scalar_q();
        let wide = |lo: &[u8], hi: &[u8]| -> Vec<u8> {
            let mut b = lo.to_vec();
            b.extend_from_slice(hi);
            b
        };
        let twoq = {
            let mut b = vec![0u8; 64];
            let mut carry = 0u16;
            for i in 0..33 {
                let v = if i < 32 { 2 * q[i] as u16 } else { 0 } + carry;
                b[i] = v as u8;
                carry = v >> 8;
            }
            b
        };
        let f = match fault["kind"].as_str().unwrap_or("zeros") {
            "zeros" => crate::rng::EntropyFault::Zeros,
            "q" => crate::rng::EntropyFault::Bytes(wide(&q, &[0u8; 32])),
            "hiq" => crate::rng::EntropyFault::Bytes(wide(&[0u8; 32], &q)),
            "2q" => crate::rng::EntropyFault::Bytes(twoq),
            "q-1" => crate::rng::EntropyFault::Bytes(wide(&(-Scalar::one()).to_bytes(), &[0u8; 32])),
            "repeat" | "negate" => crate::rng::EntropyFault::RepeatPrevious,
            _ => crate::harness_error("C19: unknown entropy fault kind"),
        };
        let mut m = std::collections::BTreeMap::new();
        for i in at..at + width {
            m.insert(i, f.clone());
        }
        if fault["kind"] == "negate" {
            // the field-element draw repeats and the sign word that follows it comes back with its
            // parity flipped: the generator hands out the negation of the previous group element
            m.insert(at + 1, crate::rng::EntropyFault::RepeatPreviousFlipped);
        }
        SimRng::with_faults(seed, &l, m)
    };
    r.budget = 1 << 14;
    r
}

fn fault_counter(fault: &Value) -> &'static str {
    match fault["kind"].as_str().unwrap_or("zeros") {
        "zeros" => "fault.entropy_zero_draw",
        "repeat" | "negate" => "fault.entropy_repeated_draw",
        _ => "fault.entropy_modulus_multiple_draw",
    }
}

fn roundtrip<T: Serialize + DeserializeOwned>(o: &mut Outcome, site: &str, v: &T) -> Trace {
    let t = atoms::trace(v);
    match bincode::deserialize::<T>(&t.bytes) {
        Ok(d) => {
            let again = atoms::encode(&d);
            if again != t.bytes {
                o.violate("generated-value-reencodes-differently", site, "decode(encode(v)) re-encodes to different bytes".into());
            }
        }
        Err(e) => o.violate(
            "generated-value-rejected-by-own-decoder",
            site,
            format!("the crate's validating decoder refuses the generated value: {}", e),
        ),
    }
    t
}

fn check_keypair_trace(o: &mut Outcome, site: &str, t: &Trace) -> Option<(Pk, Sk)> {
    // identity / zero checks on the raw atoms first (cannot use refc::g1 on an identity)
    for a in 0..t.atoms.len() {
        let b = t.atom_bytes(a);
        let path = &t.atoms[a].path;
        if b.len() == 48 && b == refc::bad::g1_identity() {
            o.violate("identity-element-in-key", site, format!("atom {} is the G1 identity", path));
            return None;
        }
        if b.len() == 96 && b == refc::bad::g2_identity() {
            o.violate("identity-element-in-key", site, format!("atom {} is the G2 identity", path));
            return None;
        }
        if b.len() == 32 && b.iter().all(|x| *x == 0) {
            o.violate("zero-secret-scalar", site, format!("atom {} is the zero scalar", path));
            return None;
        }
    }
    let pk = Pk::from_trace(t, "pk");
    let sk = Sk::from_trace(t, "sk");
    let g1a = pk.g1.to_affine();
    let g2a = pk.g2.to_affine();
    if pairing(&sk.x1.to_affine(), &g2a) != pairing(&g1a, &pk.x2.to_affine()) {
        o.violate("g1-g2-halves-disagree", site, "e(X1, g~) != e(g1, X~)".into());
    }
    for i in 0..pk.n() {
        if pairing(&g1a, &pk.y2s[i].to_affine()) != pairing(&pk.y1s[i].to_affine(), &g2a) {
            o.violate("g1-g2-halves-disagree", site, format!("e(g1, Y~{}) != e(Y{}, g~)", i, i));
        }
        if pk.g1 * sk.ys[i] != pk.y1s[i] || pk.g2 * sk.ys[i] != pk.y2s[i] {
            o.violate("public-key-not-derived-from-secret", site, format!("Y{} / Y~{} is not g^y{}", i, i, i));
        }
    }
    if pk.g1 * sk.x != sk.x1 || pk.g2 * sk.x != pk.x2 {
        o.violate("public-key-not-derived-from-secret", site, "X1 / X~ is not g^x".into());
    }
    Some((pk, sk))
}

fn gen_keypair<const N: usize>(o: &mut Outcome, seed: u64, stream: u64, fault: &Value, baseline_draws: u64) {
    let site = format!("KeyPair<{}>::new", N);
    let mut rng = make_rng(seed, "keypair", N, stream, fault);
    let kp = KeyPair::<N>::new(&mut rng);
    o.events += rng.draws.len() as u64;
    o.add(fault_counter(fault), rng.faults_fired as u64);
    if baseline_draws > 0 && rng.draws.len() as u64 > baseline_draws {
        o.bump("probe.zero_scalar_retry_taken");
    }
    let t = roundtrip(o, &site, &kp);
    if let Some((pk, _sk)) = check_keypair_trace(o, &site, &t) {
        // a signature made with the key verifies on its message (library and reference relation)
        let mut r2 = SimRng::new(seed, &format!("c19/sign/{}/{}", N, stream));
        let msg = Message::<N>::random(&mut r2);
        let sig = msg.sign(&mut r2, &kp);
        if !sig.verify(kp.public_key(), &msg) {
            o.violate("signature-with-generated-key-fails", &site, "Signature::verify is false on a fresh signature".into());
        }
        let st = atoms::trace(&sig);
        let (s1, s2) = refc::sig_from_bytes(&st.bytes);
        if !refc::ps_verify(&pk, &msg[..], &s1, &s2) {
            o.violate("signature-with-generated-key-fails", &site, "reference PS relation is false on a fresh signature".into());
        }
        // and not on a message changed in one coordinate
        let mut m2: Vec<Scalar> = msg.iter().cloned().collect();
        m2[0] += Scalar::one();
        if refc::ps_verify(&pk, &m2, &s1, &s2) {
            o.violate("signature-with-generated-key-fails", &site, "signature also satisfies the relation on a different message".into());
        }
    }
}

/// A stream crafted so that the key signs a chosen message with exponent zero
/// (all y_i = 1, x = -sum m_i): sigma_2 of that signature is the identity, which is a perfectly
/// valid signature; and the y_i repeat.
fn gen_keypair_crafted<const N: usize>(o: &mut Outcome, seed: u64, stream: u64) {
    let site = format!("KeyPair<{}>::new(crafted stream)", N);
    let mut r2 = SimRng::new(seed, &format!("c19/sign/{}/{}", N, stream));
    let msg = Message::<N>::random(&mut r2);
    let mut x = Scalar::zero();
    for m in msg.iter() {
        x -= m;
    }
    let mut scalars = vec![x];
    scalars.extend(std::iter::repeat(Scalar::one()).take(N));
    let mut rng = crafted_rng(seed, "keypair", N, stream, &scalars);
    let kp = KeyPair::<N>::new(&mut rng);
    o.events += rng.draws.len() as u64;
    o.add("fault.entropy_crafted_scalar_draw", rng.faults_fired as u64);
    let t = roundtrip(o, &site, &kp);
    if let Some((pk, sk)) = check_keypair_trace(o, &site, &t) {
        if sk.x != x || sk.ys.iter().any(|y| *y != Scalar::one()) {
            crate::harness_error("C19: the crafted stream did not produce the intended secret key");
        }
        let sig = msg.sign(&mut r2, &kp);
        if !sig.verify(kp.public_key(), &msg) {
            o.violate("signature-with-generated-key-fails", &site, "a signature made with the generated key (signing exponent zero for this message) does not verify".into());
        }
        let st = atoms::trace(&sig);
        let s1 = refc::g1(&st.bytes[..48]);
        let s2: Option<bls12_381::G1Affine> = {
            let mut b = [0u8; 48];
            b.copy_from_slice(&st.bytes[48..96]);
            bls12_381::G1Affine::from_compressed(&b).into()
        };
        match s2 {
            Some(s2) => {
                if !refc::ps_verify(&pk, &msg[..], &s1, &s2.into()) {
                    o.violate("signature-with-generated-key-fails", &site, "reference PS relation is false on the signature".into());
                }
                if bool::from(s2.is_identity()) {
                    o.bump("probe.crafted_identity_sigma2");
                }
            }
            None => crate::harness_error("C19: sigma2 does not decode"),
        }
    }
}

fn gen_range_crafted(o: &mut Outcome, seed: u64, stream: u64, digit: u64) {
    let site = "RangeConstraintParameters::new(crafted stream)";
    let scalars = vec![-Scalar::from(digit), Scalar::one()];
    let mut rng = crafted_rng(seed, "range", 0, stream, &scalars);
    let rp = RangeConstraintParameters::new(&mut rng);
    o.events += rng.draws.len() as u64;
    o.add("fault.entropy_crafted_scalar_draw", rng.faults_fired as u64);
    // cannot use roundtrip(): a digit signature with identity sigma2 is fine, but check decode too
    let t = roundtrip(o, site, &rp);
    if let Err(e) = rp.validate() {
        o.violate("range-parameters-fail-validate", site, format!("key x = -{}, y = 1: {}", digit, e));
    }
    let _ = t;
}

fn check_pedersen<G: Group<Scalar = Scalar>>(o: &mut Outcome, site: &str, t: &Trace, g1like: bool) {
    for a in 0..t.atoms.len() {
        let b = t.atom_bytes(a);
        let ident = if g1like { b == refc::bad::g1_identity() } else { b == refc::bad::g2_identity() };
        if ident {
            o.violate("identity-generator", site, format!("atom {} is the identity", t.atoms[a].path));
        }
    }
}

fn gen_pedersen_g1<const N: usize>(o: &mut Outcome, seed: u64, stream: u64, fault: &Value) {
    let site = format!("PedersenParameters<G1,{}>::new", N);
    let mut rng = make_rng(seed, "pedersen-g1", N, stream, fault);
    let p = PedersenParameters::<G1Projective, N>::new(&mut rng);
    o.events += rng.draws.len() as u64;
    o.add(fault_counter(fault), rng.faults_fired as u64);
    let t = roundtrip(o, &site, &p);
    check_pedersen::<G1Projective>(o, &site, &t, true);
    // usable: a commitment opens
    let mut r2 = SimRng::new(seed, &format!("c19/commit-g1/{}/{}", N, stream));
    let msg = Message::<N>::random(&mut r2);
    let bf = zkchannels_crypto::BlindingFactor::new(&mut r2);
    let c = msg.commit(&p, bf);
    if !c.verify_opening(&p, bf, &msg) {
        o.violate("commitment-with-generated-parameters-fails", &site, "commitment does not open".into());
    }
}
fn gen_pedersen_g2<const N: usize>(o: &mut Outcome, seed: u64, stream: u64, fault: &Value) {
    let site = format!("PedersenParameters<G2,{}>::new", N);
    let mut rng = make_rng(seed, "pedersen-g2", N, stream, fault);
    let p = PedersenParameters::<G2Projective, N>::new(&mut rng);
    o.events += rng.draws.len() as u64;
    o.add(fault_counter(fault), rng.faults_fired as u64);
    let t = roundtrip(o, &site, &p);
    check_pedersen::<G2Projective>(o, &site, &t, false);
    let mut r2 = SimRng::new(seed, &format!("c19/commit-g2/{}/{}", N, stream));
    let msg = Message::<N>::random(&mut r2);
    let bf = zkchannels_crypto::BlindingFactor::new(&mut r2);
    let c = msg.commit(&p, bf);
    if !c.verify_opening(&p, bf, &msg) {
        o.violate("commitment-with-generated-parameters-fails", &site, "commitment does not open".into());
    }
}

pub fn check_range_params(o: &mut Outcome, site: &str, rp: &RangeConstraintParameters, t: &Trace) {
    if let Err(e) = rp.validate() {
        o.violate("range-parameters-fail-validate", site, e);
    }
    // reference: each digit signature satisfies the PS relation on its digit under the published key
    for a in 0..t.atoms.len() {
        let b = t.atom_bytes(a);
        if (b.len() == 48 && b == refc::bad::g1_identity()) || (b.len() == 96 && b == refc::bad::g2_identity()) {
            o.violate("identity-element-in-range-parameters", site, format!("atom {} is the identity", t.atoms[a].path));
            return;
        }
    }
    let pk = Pk::from_trace(t, "public_key");
    let mut n = 0;
    loop {
        let p1 = format!("digit_signatures[{}].sigma1", n);
        let p2 = format!("digit_signatures[{}].sigma2", n);
        let (i1, i2) = match (t.find(&p1), t.find(&p2)) {
            (Some(a), Some(b)) => (a, b),
            _ => break,
        };
        let s1 = refc::g1(t.atom_bytes(i1));
        let s2 = refc::g1(t.atom_bytes(i2));
        if !refc::ps_verify(&pk, &[Scalar::from(n as u64)], &s1, &s2) {
            o.violate("digit-signature-invalid", site, format!("digit signature {} does not verify on {}", n, n));
        }
        n += 1;
    }
    if n != 128 {
        o.violate("digit-signature-count", site, format!("{} digit signatures, expected 128", n));
    }
}

fn gen_range(o: &mut Outcome, seed: u64, stream: u64, fault: &Value) {
    let site = "RangeConstraintParameters::new";
    let mut rng = make_rng(seed, "range", 0, stream, fault);
    let rp = RangeConstraintParameters::new(&mut rng);
    o.events += rng.draws.len() as u64;
    o.add(fault_counter(fault), rng.faults_fired as u64);
    let t = roundtrip(o, site, &rp);
    check_range_params(o, site, &rp, &t);
}

fn gen_merchant(o: &mut Outcome, seed: u64, stream: u64, fault: &Value) {
    let site = "merchant::Config::new";
    let mut rng = make_rng(seed, "merchant", 0, stream, fault);
    let cfg = zkabacus_crypto::merchant::Config::new(&mut rng);
    o.events += rng.draws.len() as u64;
    o.add(fault_counter(fault), rng.faults_fired as u64);
    let kt = roundtrip(o, site, cfg.signing_keypair());
    let _ = check_keypair_trace(o, site, &kt);
    let pt = roundtrip(o, site, cfg.revocation_commitment_parameters());
    check_pedersen::<G1Projective>(o, site, &pt, true);
    let rt = roundtrip(o, site, cfg.range_constraint_parameters());
    check_range_params(o, site, cfg.range_constraint_parameters(), &rt);
    // the customer-side configuration extracted from it decodes as well
    let (pk, rev, range) = cfg.extract_customer_config_parts();
    let cc = zkabacus_crypto::customer::Config::from_parts(pk, rev, range);
    let _ = roundtrip(o, "customer::Config(from merchant::Config::new)", &cc);
}

fn baseline_draws(seed: u64, gen: &str, n: usize, stream: u64) -> usize {
    baseline_draws_list(seed, gen, n, stream).len()
}

fn baseline_draws_list(seed: u64, gen: &str, n: usize, stream: u64) -> Vec<crate::rng::DrawKind> {
    let mut rng = make_rng(seed, gen, n, stream, &Value::Null);
    macro_rules! kp {
        ($($n:literal),*) => { match n { $($n => { let _ = KeyPair::<$n>::new(&mut rng); })* _ => crate::harness_error("bad N") } };
    }
    macro_rules! p1 {
        ($($n:literal),*) => { match n { $($n => { let _ = PedersenParameters::<G1Projective, $n>::new(&mut rng); })* _ => crate::harness_error("bad N") } };
    }
    macro_rules! p2 {
        ($($n:literal),*) => { match n { $($n => { let _ = PedersenParameters::<G2Projective, $n>::new(&mut rng); })* _ => crate::harness_error("bad N") } };
    }
    match gen {
        "keypair" => kp!(1, 2, 3, 5, 8, 13),
        "pedersen-g1" => p1!(1, 2, 3, 5, 8, 13),
        "pedersen-g2" => p2!(1, 2, 3, 5, 8, 13),
        "range" => {
            let _ = RangeConstraintParameters::new(&mut rng);
        }
        "merchant" => {
            let _ = zkabacus_crypto::merchant::Config::new(&mut rng);
        }
        _ => crate::harness_error("bad generator"),
    }
    rng.draws
}

impl Prop for C19 {
    fn id(&self) -> &'static str {
        "C19"
    }
    fn level(&self) -> &'static str {
        "fault_enumeration"
    }
    fn cases(&self, tier: Tier, seed: u64) -> CaseSet {
        let mut v = Vec::new();
        let streams: u64 = match tier {
            Tier::Quick => 1,
            Tier::Thorough => 6,
        };
        let mut sch = Sched::new(seed, "c19/cases");
        for stream in 0..streams {
            for gen in ["keypair", "pedersen-g1", "pedersen-g2"] {
                for n in NS {
                    let d = baseline_draws(seed, gen, n, stream);
                    v.push(json!({"gen": gen, "n": n, "seed": seed, "stream": stream, "fault": null, "baseline": d}));
                    for at in 0..d {
                        for width in 1..=3usize {
                            v.push(json!({"gen": gen, "n": n, "seed": seed, "stream": stream,
                                          "fault": {"at": at, "width": width}, "baseline": d}));
                        }
                        // non-zero draws that reduce to zero, and a stuck generator
                        for (kind, width) in [("q", 1usize), ("hiq", 1), ("2q", 1), ("q-1", 1), ("repeat", 1), ("repeat", 2), ("negate", 1)] {
                            if gen != "keypair" && kind != "repeat" && kind != "q" && kind != "negate" {
                                continue;
                            }
                            if gen == "keypair" && kind == "negate" {
                                continue;
                            }
                            v.push(json!({"gen": gen, "n": n, "seed": seed, "stream": stream,
                                          "fault": {"at": at, "width": width, "kind": kind}, "baseline": d}));
                        }
                    }
                }
            }
            for n in NS {
                v.push(json!({"gen": "keypair-crafted", "n": n, "seed": seed, "stream": stream, "fault": {"craft": "signing-exponent-zero"}, "baseline": 0}));
            }
            for d in [0u64, 1, 5, 127] {
                v.push(json!({"gen": "range-crafted", "n": d, "seed": seed, "stream": stream, "fault": {"craft": "x=-d,y=1"}, "baseline": 0}));
            }
            // range parameters: every draw of the key pair, and a share of the signature draws
            let kd = baseline_draws(seed, "keypair", 1, stream); // same prefix length class as the embedded key pair
            let dl = baseline_draws_list(seed, "range", 0, stream);
            let d = dl.len();
            v.push(json!({"gen": "range", "n": 0, "seed": seed, "stream": stream, "fault": null, "baseline": d}));
            for at in 0..d {
                let in_key = at < kd + 4;
                // the first few group elements drawn after the embedded key pair (bases, strides,
                // ...) get the group-element faults in every tier
                let near_key = at < kd + 64;
                let fill_here = dl.get(at) == Some(&crate::rng::DrawKind::Fill(96));
                let visit = in_key || tier == Tier::Thorough || sch.chance(1, 10);
                if !visit {
                    if near_key && fill_here {
                        for kind in ["repeat", "negate"] {
                            v.push(json!({"gen": "range", "n": 0, "seed": seed, "stream": stream,
                                          "fault": {"at": at, "width": 1, "kind": kind}, "baseline": d}));
                        }
                    }
                    continue;
                }
                for width in 1..=3usize {
                    if tier == Tier::Quick && !in_key && width != 1 + (at % 3) {
                        continue;
                    }
                    v.push(json!({"gen": "range", "n": 0, "seed": seed, "stream": stream,
                                  "fault": {"at": at, "width": width}, "baseline": d}));
                }
                for kind in ["q", "hiq", "2q", "repeat", "q-1", "negate"] {
                    // outside the embedded key pair the draws are group elements (a 96-byte field
                    // element, then a sign word): the group-element kinds at every such draw
                    let take = if kind == "negate" { fill_here } else if in_key { true } else if kind == "repeat" { fill_here } else { tier == Tier::Thorough && at % 4 == 0 };
                    if !take {
                        continue;
                    }
                    v.push(json!({"gen": "range", "n": 0, "seed": seed, "stream": stream,
                                  "fault": {"at": at, "width": 1, "kind": kind}, "baseline": d}));
                }
            }
            // merchant configuration: healthy, plus windows at a share of its draws
            let d = baseline_draws(seed, "merchant", 0, stream);
            v.push(json!({"gen": "merchant", "n": 0, "seed": seed, "stream": stream, "fault": null, "baseline": d}));
            let share = match tier {
                Tier::Quick => 40,
                Tier::Thorough => 4,
            };
            for at in 0..d {
                if !(at < 40 || sch.chance(1, share)) {
                    continue;
                }
                let width = 1 + sch.usize(3);
                v.push(json!({"gen": "merchant", "n": 0, "seed": seed, "stream": stream,
                              "fault": {"at": at, "width": width}, "baseline": d}));
                let kind = ["q", "hiq", "2q", "repeat", "q-1", "negate"][sch.usize(6)];
                v.push(json!({"gen": "merchant", "n": 0, "seed": seed, "stream": stream,
                              "fault": {"at": at, "width": 1, "kind": kind}, "baseline": d}));
            }
        }
        CaseSet {
            enumerated: v,
            random: 0,
            exhaustive: false,
        }
    }
    fn random_case(&self, _tier: Tier, seed: u64, idx: usize) -> Value {
        json!({"gen": "keypair", "n": 3, "seed": seed, "stream": mix(&[seed, idx as u64]), "fault": null, "baseline": 0})
    }
    fn run(&self, case: &Value) -> Outcome {
        let mut o = Outcome::default();
        let gen = case["gen"].as_str().unwrap_or("");
        let n = case["n"].as_u64().unwrap_or(0) as usize;
        let seed = case["seed"].as_u64().unwrap_or(0);
        let stream = case["stream"].as_u64().unwrap_or(0);
        let fault = &case["fault"];
        let baseline = case["baseline"].as_u64().unwrap_or(0);
        macro_rules! disp {
            ($f:ident; $($n:literal),*) => { match n { $($n => $f::<$n>(&mut o, seed, stream, fault),)* _ => crate::harness_error("bad N") } };
        }
        match gen {
            "keypair" => match n {
                1 => gen_keypair::<1>(&mut o, seed, stream, fault, baseline),
                2 => gen_keypair::<2>(&mut o, seed, stream, fault, baseline),
                3 => gen_keypair::<3>(&mut o, seed, stream, fault, baseline),
                5 => gen_keypair::<5>(&mut o, seed, stream, fault, baseline),
                8 => gen_keypair::<8>(&mut o, seed, stream, fault, baseline),
                13 => gen_keypair::<13>(&mut o, seed, stream, fault, baseline),
                _ => crate::harness_error("bad N"),
            },
            "pedersen-g1" => disp!(gen_pedersen_g1; 1, 2, 3, 5, 8, 13),
            "pedersen-g2" => disp!(gen_pedersen_g2; 1, 2, 3, 5, 8, 13),
            "range" => gen_range(&mut o, seed, stream, fault),
            "keypair-crafted" => match n {
                1 => gen_keypair_crafted::<1>(&mut o, seed, stream),
                2 => gen_keypair_crafted::<2>(&mut o, seed, stream),
                3 => gen_keypair_crafted::<3>(&mut o, seed, stream),
                5 => gen_keypair_crafted::<5>(&mut o, seed, stream),
                8 => gen_keypair_crafted::<8>(&mut o, seed, stream),
                13 => gen_keypair_crafted::<13>(&mut o, seed, stream),
                _ => crate::harness_error("bad N"),
            },
            "range-crafted" => gen_range_crafted(&mut o, seed, stream, n as u64),
            "merchant" => gen_merchant(&mut o, seed, stream, fault),
            _ => crate::harness_error("bad generator in case"),
        }
        o.bump(&format!("event.generate.{}", gen));
        o.nontrivial = !fault.is_null();
        o.shape = mix(&[
            gen.bytes().fold(7u64, |a, b| a.wrapping_mul(131).wrapping_add(b as u64)),
            n as u64,
            fault["at"].as_u64().unwrap_or(u64::MAX),
            fault["width"].as_u64().unwrap_or(0),
            crate::hash_str(fault["kind"].as_str().unwrap_or("zeros")),
            stream,
        ]);
        o.log_hash = mix(&[o.shape, o.events, o.violations.len() as u64]);
        o
    }
    fn shrink(&self, case: &Value) -> Vec<Value> {
        let mut v = Vec::new();
        if !case["fault"].is_null() {
            let w = case["fault"]["width"].as_u64().unwrap_or(1);
            if w > 1 {
                let mut c = case.clone();
                c["fault"]["width"] = json!(w - 1);
                v.push(c);
            }
            let mut c = case.clone();
            c["fault"] = Value::Null;
            v.push(c);
        }
        v
    }
    fn rule(&self) -> String {
        "one case = one generator (KeyPair<N>, PedersenParameters<G1|G2,N> for N in {1,2,3,5,8,13}, RangeConstraintParameters, merchant::Config) executed on a keyed entropy stream with either no fault or an all-zero window of width 1..3 starting at one recorded draw index (every index for keys and Pedersen parameters; every key-pair draw plus a share of the signature draws for range parameters and merchant configs). Plus crafted (non-zero) scalar streams: all y_i = 1 and x = -sum m_i for the message signed next (signing exponent zero: sigma_2 is the identity, still a valid signature; repeated y_i), and x = -d, y = 1 for range parameters (digit d). Distinct = distinct (generator, N, stream, draw index, width); non-trivial = a fault was injected".into()
    }
    fn assumptions(&self) -> Vec<String> {
        vec![
            "RefCrypto (pairing relations evaluated directly on bls12_381) and the atom tracer are trusted".into(),
            "entropy faults are all-zero windows aligned with recorded draws; other degenerate streams are not enumerated".into(),
            "G::random of bls12_381 0.4.0 cannot return the identity, so the non-identity retry loop is unreachable under any stream".into(),
        ]
    }
    fn required_probes(&self, _tier: Tier) -> Vec<&'static str> {
        vec!["probe.zero_scalar_retry_taken", "fault.entropy_zero_draw", "fault.entropy_crafted_scalar_draw", "probe.crafted_identity_sigma2", "fault.entropy_modulus_multiple_draw", "fault.entropy_repeated_draw"]
    }
}
