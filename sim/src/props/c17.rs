//! C17 — balance and amount arithmetic is total, exact and range-preserving (restricted claim:
//! the boundary lattice exhaustively, random 64-bit values sampled; overflow checks are on).

use crate::driver::{CaseSet, Outcome, Prop, Tier};
use crate::forge;
use crate::harvest;
use crate::mctx::merchant;
use crate::plangen::{gen_plan, Profile};
use crate::props::world_props::{case_of, keep, plan_of, run_plan, shrink_world_case};
use crate::rng::{mix, Sched, SimRng};
use crate::world::MAXB;
use serde_json::{json, Value};
use zkabacus_crypto as za;

pub struct C17;
const MSPEC: &str = "9001";

pub const FULL_LATTICE: [u64; 11] = [0, 1, 2, 1 << 31, 1 << 32, 1 << 62, (1 << 63) - 2, (1 << 63) - 1, 1 << 63, (1 << 63) + 1, u64::MAX];

fn signed_lattice() -> Vec<i64> {
    let mut v = vec![i64::MIN];
    for x in FULL_LATTICE.iter().filter(|x| **x <= i64::MAX as u64) {
        v.push(*x as i64);
        if *x != 0 {
            v.push(-(*x as i64));
        }
    }
    v
}

fn constructors(o: &mut Outcome, seed: u64, random: bool) {
    let mut s = Sched::new(seed, "c17/constructors");
    let vals: Vec<u64> = if random { (0..64).map(|_| s.u64() >> s.usize(3)).collect() } else { FULL_LATTICE.to_vec() };
    for &v in &vals {
        o.events += 4;
        let ok = v <= i64::MAX as u64;
        match za::CustomerBalance::try_new(v) {
            Ok(b) => {
                if !ok || b.into_inner() != v {
                    o.violate("balance-constructor-wrong", "CustomerBalance::try_new", format!("try_new({}) = Ok({})", v, b.into_inner()));
                }
                if b.is_zero() != (v == 0) || b.is_positive() != (v != 0) {
                    o.violate("balance-predicate-wrong", "CustomerBalance::is_zero", format!("value {}", v));
                }
            }
            Err(e) => {
                if ok || !matches!(e, za::Error::AmountTooLarge(x) if x == v) {
                    o.violate("balance-constructor-wrong", "CustomerBalance::try_new", format!("try_new({}) = Err({:?})", v, e));
                }
            }
        }
        match za::MerchantBalance::try_new(v) {
            Ok(b) => {
                if !ok || b.into_inner() != v {
                    o.violate("balance-constructor-wrong", "MerchantBalance::try_new", format!("try_new({}) = Ok({})", v, b.into_inner()));
                }
            }
            Err(e) => {
                if ok || !matches!(e, za::Error::AmountTooLarge(x) if x == v) {
                    o.violate("balance-constructor-wrong", "MerchantBalance::try_new", format!("try_new({}) = Err({:?})", v, e));
                }
            }
        }
        match za::PaymentAmount::pay_merchant(v) {
            Ok(a) => {
                if !ok || a.to_i64() as i128 != v as i128 {
                    o.violate("amount-constructor-wrong", "PaymentAmount::pay_merchant", format!("pay_merchant({}) = {}", v, a.to_i64()));
                }
            }
            Err(e) => {
                if ok || !matches!(e, za::Error::AmountTooLarge(x) if x == v) {
                    o.violate("amount-constructor-wrong", "PaymentAmount::pay_merchant", format!("pay_merchant({}) = Err({:?})", v, e));
                }
            }
        }
        match za::PaymentAmount::pay_customer(v) {
            Ok(a) => {
                if !ok || a.to_i64() as i128 != -(v as i128) {
                    o.violate("amount-constructor-wrong", "PaymentAmount::pay_customer", format!("pay_customer({}) = {}", v, a.to_i64()));
                }
            }
            Err(e) => {
                if ok || !matches!(e, za::Error::AmountTooLarge(x) if x == v) {
                    o.violate("amount-constructor-wrong", "PaymentAmount::pay_customer", format!("pay_customer({}) = Err({:?})", v, e));
                }
            }
        }
        // try_add over the lattice
        for &w in &vals {
            if v > i64::MAX as u64 || w > i64::MAX as u64 {
                continue;
            }
            o.events += 1;
            // (a refusal of an in-range value has been reported above)
            let (mb, cb) = match (za::MerchantBalance::try_new(v), za::CustomerBalance::try_new(w)) {
                (Ok(a), Ok(b)) => (a, b),
                _ => continue,
            };
            let ideal = v as i128 + w as i128;
            match mb.try_add(cb) {
                Ok(r) => {
                    if ideal > MAXB || r.into_inner() as i128 != ideal {
                        o.violate("try-add-wrong", "MerchantBalance::try_add", format!("{} + {} = Ok({})", v, w, r.into_inner()));
                    }
                }
                Err(_) => {
                    if ideal <= MAXB {
                        o.violate("try-add-wrong", "MerchantBalance::try_add", format!("{} + {} refused", v, w));
                    }
                }
            }
        }
    }
    if za::PaymentAmount::zero().to_i64() != 0 {
        o.violate("amount-constructor-wrong", "PaymentAmount::zero", "zero() is not 0".into());
    }
    o.bump("probe.constructors_checked");
}

/// One established channel with balances (c, m); `Ready::start` is called for every amount of the
/// signed lattice (and the wire-only value i64::MIN) on a fresh copy of the ready stage restored
/// from its image; it must succeed exactly when both results stay in [0, 2^63-1].
fn start_lattice(o: &mut Outcome, seed: u64, c: u64, mval: u64, amounts: &[i64]) {
    let m = merchant(MSPEC);
    let mut rng = SimRng::new(seed, "c17/start-lattice");
    let cid = za::ChannelId::new(za::MerchantRandomness::new(&mut rng), za::CustomerRandomness::new(&mut rng), m.cfg.signing_keypair().public_key(), b"m", b"c");
    let ctx = za::Context::new(b"c17-establish");
    let (cb, mb) = match (za::CustomerBalance::try_new(c), za::MerchantBalance::try_new(mval)) {
        (Ok(a), Ok(b)) => (a, b),
        _ => {
            o.violate("balance-constructor-wrong", "try_new", format!("an in-range balance of ({}, {}) is refused by its constructor", c, mval));
            return;
        }
    };
    let (req, proof) = za::customer::Requested::new(&mut rng, &m.ccfg, cid, mb, cb, &ctx);
    let (cs, vbs) = match m.cfg.initialize(&mut rng, &cid, cb, mb, proof, &ctx) {
        Some(x) => x,
        None => {
            o.violate("honest-establish-refused", "merchant::Config::initialize", format!("balances ({}, {})", c, mval));
            return;
        }
    };
    let inactive = match req.complete(cs, &m.ccfg) {
        Ok(i) => i,
        Err(_) => {
            o.violate("honest-reply-refused", "customer::requested", format!("balances ({}, {})", c, mval));
            return;
        }
    };
    let ready = match inactive.activate(m.cfg.activate(&mut rng, vbs), &m.ccfg) {
        Ok(r) => r,
        Err(_) => {
            o.violate("honest-reply-refused", "customer::inactive", format!("balances ({}, {})", c, mval));
            return;
        }
    };
    o.events += 3;
    let image = crate::atoms::encode(&ready);
    for &a in amounts {
        let amt: za::PaymentAmount = match bincode::deserialize(&a.to_le_bytes()) {
            Ok(x) => x,
            Err(_) => {
                o.bump("probe.wire_amount_refused_by_decoder");
                continue;
            }
        };
        let r2: za::customer::Ready = match bincode::deserialize(&image) {
            Ok(r) => r,
            Err(e) => {
                o.violate("stored-stage-rejected", "customer::ready", e.to_string());
                return;
            }
        };
        let (nc, nm) = (c as i128 - a as i128, mval as i128 + a as i128);
        let admissible = nc >= 0 && nc <= MAXB && nm >= 0 && nm <= MAXB;
        o.events += 1;
        let mut r = SimRng::new(seed, &format!("c17/start/{}", a));
        let res = std::panic::catch_unwind(std::panic::AssertUnwindSafe(|| r2.start(&mut r, amt, &za::Context::new(b"c17-pay"), &m.ccfg)));
        match res {
            Err(_) => {
                let (loc, msg) = crate::driver::take_panic();
                o.violate("arithmetic-panic", &crate::driver::normalise_loc(&loc), format!("Ready::start panicked for amount {} on ({}, {}): {}", a, c, mval, msg));
            }
            Ok(Ok((started, _sm))) => {
                o.bump("probe.lattice_start_ok");
                if !admissible {
                    o.violate("inadmissible-payment-started", "customer::Ready::start", format!("amount {} on ({}, {}) leaves the range but start succeeded", a, c, mval));
                }
                // the started stage still reports the old balances
                if started.customer_balance().into_inner() != c || started.merchant_balance().into_inner() != mval {
                    o.violate("balance-differs-from-ledger", "customer::started", format!("after start({}) on ({}, {})", a, c, mval));
                }
            }
            Ok(Err((rdy, err))) => {
                o.bump("probe.lattice_start_refused");
                let neg = nc < 0 || nm < 0;
                let big = nc > MAXB || nm > MAXB;
                if admissible {
                    o.violate("admissible-payment-refused", "customer::Ready::start", format!("amount {} on ({}, {}) stays in range but start returned {:?}", a, c, mval, err));
                } else {
                    let okv = match err {
                        za::Error::InsufficientFunds => neg,
                        // the documented error carries the unrepresentable value ("greater than 2^63: {0}")
                        za::Error::AmountTooLarge(x) => big && (x as i128) > (MAXB as i128),
                    };
                    if !okv {
                        o.violate("wrong-error-variant", "customer::Ready::start", format!("amount {} on ({}, {}) returned {:?}", a, c, mval, err));
                    }
                }
                if crate::atoms::encode(&rdy) != image {
                    o.violate("refused-start-changed-state", "customer::Ready::start", format!("amount {} on ({}, {})", a, c, mval));
                }
            }
        }
    }
}

/// Amounts and balances arriving in a self-describing text format (serde_json): an integer text
/// either decodes to exactly that integer or is refused - it never wraps, saturates or changes sign.
fn text_amounts(o: &mut Outcome, seed: u64) {
    let reg = crate::types::registry();
    let mut s = Sched::new(seed, "c17/text");
    let mut ints: Vec<i128> = vec![
        0, 1, -1, 127, 128, (1 << 31), (1 << 32), (1 << 53) + 1, (1 << 62), (1 << 63) - 1, 1 << 63, (1 << 63) + 1, (1 << 64) - 1, 1 << 64, (1 << 64) + 1,
        -(1 << 63) + 1, -(1 << 63), -(1 << 63) - 1, -(1 << 64), (1 << 65) + 5,
    ];
    for _ in 0..6 {
        ints.push((s.u64() as i128) - if s.chance(1, 2) { 1i128 << 63 } else { 0 });
    }
    for (ty, lo, hi) in [("PaymentAmount", -(1i128 << 63) + 1, (1i128 << 63) - 1), ("CustomerBalance", 0, (1i128 << 63) - 1), ("MerchantBalance", 0, (1i128 << 63) - 1)] {
        let e = reg.get(ty);
        // only if the library's own text form of this type is a bare integer
        let five = 5u64.to_le_bytes();
        match (e.to_json)(&five) {
            Ok(t) if t == b"5" => {}
            _ => {
                o.bump("probe.text_form_is_not_a_bare_integer");
                continue;
            }
        }
        for v in &ints {
            let text = v.to_string();
            o.events += 1;
            o.bump("fault.wire.text-integer");
            let r = std::panic::catch_unwind(|| (e.decode_json)(text.as_bytes()));
            match r {
                Err(_) => {
                    let (loc, msg) = crate::driver::take_panic();
                    o.violate("panic", &loc, format!("decoding the text `{}` as {} panicked: {}", text, ty, msg));
                }
                Ok(Ok(back)) => {
                    let got = String::from_utf8_lossy(&back).to_string();
                    if got.trim() != text {
                        o.violate("text-amount-decodes-to-other-value", &format!("{}(json)", ty), format!("the text `{}` decodes as {} to the value `{}`", text, ty, got));
                    } else if *v < lo || *v > hi {
                        // i64::MIN is decodable as an amount (see D5); everything else out of range is not
                        if !(ty == "PaymentAmount" && *v == -(1i128 << 63)) {
                            o.violate("out-of-range-value-decodes", &format!("{}(json)", ty), format!("the text `{}` decodes as {}", text, ty));
                        }
                    } else {
                        o.bump("probe.text_integer_accepted");
                    }
                }
                Ok(Err(_)) => {
                    if *v >= lo && *v <= hi {
                        o.violate("valid-text-amount-refused", &format!("{}(json)", ty), format!("the in-range text `{}` is refused as {}", text, ty));
                    } else {
                        o.bump("probe.text_integer_refused");
                    }
                }
            }
        }
    }
}

/// A Byzantine customer sends a wire-encoded amount for a payment agreed at another amount.
fn wire_amounts(o: &mut Outcome, seed: u64) {
    text_amounts(o, seed);
    let m = merchant(MSPEC);
    let hs = harvest::pay_sample(seed % 4, MSPEC);
    // control: the agreed amount is accepted
    let r = forge::present_pay(m, hs.amount, &hs.nonce, &hs.ctx, &hs.proof.bytes, seed, "c17/wire/control");
    if r.accepted.is_none() {
        crate::harness_error("C17: the honest pay proof is refused under the agreed amount (positive control)");
    }
    o.events += 1;
    let mut s = Sched::new(seed, "c17/wire");
    let mut cands = vec![i64::MIN, i64::MIN + 1, -1, 0, 1, i64::MAX, hs.amount + 1, hs.amount - 1, -hs.amount];
    cands.push(s.u64() as i64);
    for a in cands {
        if a == hs.amount {
            continue;
        }
        o.bump("fault.byzantine.wire-amount");
        o.events += 1;
        let r = forge::present_pay(m, a, &hs.nonce, &hs.ctx, &hs.proof.bytes, seed, "c17/wire");
        if let Some(p) = r.panicked {
            let mut it = p.splitn(2, '|');
            let loc = it.next().unwrap_or("").to_string();
            let msg = it.next().unwrap_or("").to_string();
            o.violate("merchant-panics-on-wire-amount", &loc, format!("allow_payment panicked for the decodable amount {}: {}", a, msg));
        } else if r.accepted.is_some() {
            o.violate("payment-accepted-under-other-amount", "merchant::Config::allow_payment", format!("a proof made for amount {} was accepted for amount {}", hs.amount, a));
        } else if !r.decoded {
            o.bump("probe.wire_amount_refused_by_decoder");
        } else {
            o.bump("probe.wire_amount_refused");
        }
    }
}

/// The largest refund: a real proof for amount -(2^63-1) on a channel (0, 2^63-1), presented to
/// the merchant under the wire-only amount i64::MIN (whose magnitude is one more).
fn wire_extreme(o: &mut Outcome, seed: u64) {
    let m = merchant(MSPEC);
    let mut rng = SimRng::new(seed, "c17/extreme");
    let cid = za::ChannelId::new(za::MerchantRandomness::new(&mut rng), za::CustomerRandomness::new(&mut rng), m.cfg.signing_keypair().public_key(), b"m", b"c");
    let ctx = za::Context::new(b"c17-extreme-est");
    let variants: [(u64, u64, i64, Vec<i64>); 2] = [
        (0, i64::MAX as u64, -i64::MAX, vec![i64::MIN, i64::MIN + 2, i64::MAX]),
        (i64::MAX as u64, 0, i64::MAX, vec![i64::MIN, i64::MAX - 1, -i64::MAX]),
    ];
    let (c0, m0, amount, wrong) = variants[(seed % 2) as usize].clone();
    let (cb, mb) = match (za::CustomerBalance::try_new(c0), za::MerchantBalance::try_new(m0)) {
        (Ok(a), Ok(b)) => (a, b),
        _ => {
            o.violate("balance-constructor-wrong", "try_new", format!("an in-range balance of ({}, {}) is refused by its constructor", c0, m0));
            return;
        }
    };
    let (req, proof) = za::customer::Requested::new(&mut rng, &m.ccfg, cid, mb, cb, &ctx);
    let (cs, vbs) = m.cfg.initialize(&mut rng, &cid, cb, mb, proof, &ctx).unwrap_or_else(|| crate::harness_error("C17: honest establish refused (see C04)"));
    let ready = req
        .complete(cs, &m.ccfg)
        .ok()
        .and_then(|i| i.activate(m.cfg.activate(&mut rng, vbs), &m.ccfg).ok())
        .unwrap_or_else(|| crate::harness_error("C17: honest establish replies refused (see C04)"));
    let amt = match if amount >= 0 { za::PaymentAmount::pay_merchant(amount as u64) } else { za::PaymentAmount::pay_customer((-amount) as u64) } {
        Ok(a) => a,
        Err(e) => {
            o.violate("amount-constructor-wrong", "PaymentAmount", format!("amount of magnitude {} refused: {:?}", amount.unsigned_abs(), e));
            return;
        }
    };
    let pctx = b"c17-extreme-pay".to_vec();
    let (_st, sm) = match ready.start(&mut rng, amt, &za::Context::new(&pctx), &m.ccfg) {
        Ok(x) => x,
        Err((_, e)) => {
            o.violate("admissible-payment-refused", "customer::Ready::start", format!("amount {} on ({}, {}) returned {:?}", amount, c0, m0, e));
            return;
        }
    };
    let nonce = crate::atoms::encode(&sm.nonce);
    let proof = crate::atoms::encode(&sm.pay_proof);
    o.events += 5;
    let r = forge::present_pay(m, amount, &nonce, &pctx, &proof, seed, "c17/extreme/control");
    if r.accepted.is_none() {
        o.violate("honest-payment-refused", "merchant::Config::allow_payment", format!("amount {} on ({}, {})", amount, c0, m0));
        return;
    }
    o.bump("probe.extreme_payment_accepted");
    for a in wrong {
        o.bump("fault.byzantine.wire-amount");
        o.events += 1;
        let r = forge::present_pay(m, a, &nonce, &pctx, &proof, seed, "c17/extreme/wrong");
        if let Some(p) = r.panicked {
            o.violate("merchant-panics-on-wire-amount", p.split('|').next().unwrap_or(""), format!("allow_payment panicked for the decodable amount {}", a));
        } else if r.accepted.is_some() {
            o.violate("payment-accepted-under-other-amount", "merchant::Config::allow_payment", format!("a proof made for amount {} on ({}, {}) was accepted for amount {}", amount, c0, m0, a));
        } else {
            o.bump("probe.wire_amount_refused");
        }
    }
}

const C17_WORLD: [&str; 15] = [
    "balance-constructor-wrong",
    "try-add-wrong",
    "amount-constructor-accepts-2^63",
    "amount-constructor-wrong",
    "balance-differs-from-ledger",
    "balance-sum-not-conserved",
    "inadmissible-payment-started",
    "admissible-payment-refused",
    "wrong-error-variant",
    "honest-payment-refused",
    "honest-establish-refused",
    "closing-message-wrong-balances",
    "refused-start-changed-state",
    "panic",
    "honest-reply-refused",
];

impl Prop for C17 {
    fn id(&self) -> &'static str {
        "C17"
    }
    fn level(&self) -> &'static str {
        "exploration"
    }
    fn cases(&self, tier: Tier, seed: u64) -> CaseSet {
        let mut v = Vec::new();
        v.push(json!({"f": "constructors", "seed": seed, "random": false}));
        for i in 0..(if tier == Tier::Quick { 4 } else { 200 }) {
            v.push(json!({"f": "constructors", "seed": mix(&[seed, 0xC17, i]), "random": true}));
        }
        // every (customer, merchant, amount) triple of the lattice
        let sl = signed_lattice();
        for (i, c) in FULL_LATTICE.iter().filter(|x| **x <= i64::MAX as u64).enumerate() {
            for (j, mm) in FULL_LATTICE.iter().filter(|x| **x <= i64::MAX as u64).enumerate() {
                // split the amounts over several cases to spread the work
                for (k, chunk) in sl.chunks(6).enumerate() {
                    v.push(json!({"f": "start-lattice", "seed": mix(&[seed, 0xC17B, i as u64, j as u64, k as u64]), "c": c, "m": mm, "amounts": chunk}));
                }
            }
        }
        // see-saw histories: the whole capacity of a channel moved back and forth several times
        // (no single payment is out of range, the cumulative volume passes 2^64)
        for (i, (c0, m0)) in [(i64::MAX as u64, 0u64), (0, i64::MAX as u64), (1u64 << 62, (1u64 << 62) - 1), (1000, 24)].iter().enumerate() {
            use crate::world::{ChanPlan, PayPlan, Plan};
            let cap = (*c0 as i128 + *m0 as i128).min(MAXB) as i64;
            let mut pays = Vec::new();
            let mut c = *c0 as i128;
            for k in 0..6 {
                // move everything to the merchant, then everything back, ...
                let a: i64 = if k % 2 == 0 { c as i64 } else { -cap };
                c -= a as i128;
                pays.push(PayPlan { amount: a, cs_faults: vec![], lock_faults: vec![], pt_faults: vec![] });
            }
            let plan = Plan {
                seed: mix(&[seed, 0xC17F, i as u64]),
                merchants: vec!["9001".into()],
                channels: vec![ChanPlan { merchant: 0, cust_bal: *c0, merch_bal: *m0, est_cs_faults: vec![], est_pt_faults: vec![], payments: pays, stop_at: 6, stop_stage: "ready".into() }],
                order: vec![0],
                wire: i % 2 == 1,
                crash: "none".into(),
                crash_steps: vec![],
                entropy: vec![],
            };
            let mut cse = case_of(&plan, json!({}));
            cse["f"] = json!("history");
            v.push(cse);
        }
        for i in 0..(if tier == Tier::Quick { 8 } else { 400 }) {
            v.push(json!({"f": "wire-amount", "seed": mix(&[seed, 0xC17C, i])}));
        }
        for i in 0..(if tier == Tier::Quick { 4 } else { 100 }) {
            v.push(json!({"f": "wire-extreme", "seed": mix(&[seed, 0xC17E, i]) / 2 * 2 + (i % 2)}));
        }
        CaseSet {
            enumerated: v,
            random: match tier {
                Tier::Quick => 120,
                Tier::Thorough => 20_000,
            },
            exhaustive: false,
        }
    }
    fn random_case(&self, tier: Tier, seed: u64, idx: usize) -> Value {
        if idx % 3 == 0 {
            // random 64-bit balances and amounts through start
            let mut s = Sched::new(mix(&[seed, 0xC17D, idx as u64]), "c17/random-start");
            let amounts: Vec<i64> = (0..4).map(|_| (s.u64() >> s.usize(4)) as i64 * if s.chance(1, 2) { 1 } else { -1 }).collect();
            return json!({"f": "start-lattice", "seed": s.u64(), "c": s.u64() >> 1, "m": s.u64() >> (1 + s.usize(30)), "amounts": amounts});
        }
        let mut p = Profile::honest(true);
        if tier == Tier::Thorough {
            p.payments = (0, 12);
            p.max_admissible = 5;
        }
        let mut c = case_of(&gen_plan(mix(&[seed, 0xC17A, idx as u64]), &p), json!({}));
        c["f"] = json!("history");
        c
    }
    fn run(&self, case: &Value) -> Outcome {
        let mut o = Outcome::default();
        let seed = case["seed"].as_u64().unwrap_or(0);
        match case["f"].as_str().unwrap_or("") {
            "constructors" => constructors(&mut o, seed, case["random"].as_bool().unwrap_or(false)),
            "start-lattice" => {
                let amounts: Vec<i64> = case["amounts"].as_array().map(|a| a.iter().filter_map(|x| x.as_i64()).collect()).unwrap_or_default();
                start_lattice(&mut o, seed, case["c"].as_u64().unwrap_or(0), case["m"].as_u64().unwrap_or(0), &amounts);
            }
            "wire-amount" => wire_amounts(&mut o, seed),
            "wire-extreme" => wire_extreme(&mut o, seed),
            "history" => {
                let plan = plan_of(case);
                let _ = run_plan(&plan, &mut o);
                keep(&mut o, &C17_WORLD);
                o.nontrivial = true;
                return o;
            }
            _ => crate::harness_error("C17: bad case family"),
        }
        o.bump(&format!("event.c17.{}", case["f"].as_str().unwrap_or("")));
        o.nontrivial = true;
        o.shape = mix(&[crate::hash_str(&case.to_string())]);
        o.log_hash = mix(&[o.shape, o.events, o.violations.len() as u64]);
        o
    }
    fn shrink(&self, case: &Value) -> Vec<Value> {
        match case["f"].as_str().unwrap_or("") {
            "history" => shrink_world_case(case),
            "start-lattice" => {
                let mut v = Vec::new();
                if let Some(a) = case["amounts"].as_array() {
                    if a.len() > 1 {
                        for i in 0..a.len() {
                            let mut c = case.clone();
                            c["amounts"] = json!([a[i].clone()]);
                            v.push(c);
                        }
                    }
                }
                v
            }
            _ => Vec::new(),
        }
    }
    fn rule(&self) -> String {
        "four case families, overflow checks on. constructors: try_new / pay_merchant / pay_customer / try_add over the full 11-value lattice {0,1,2,2^31,2^32,2^62,2^63-2,2^63-1,2^63,2^63+1,2^64-1} and random 64-bit values against i128 arithmetic. start-lattice: one real established channel per (customer, merchant) pair of the lattice; Ready::start is called, on a copy of the stage restored from its image, for every signed lattice amount and the wire-only value i64::MIN; it must succeed exactly when both results stay in [0,2^63-1], report the right error variant otherwise, never panic. wire-amount: a Byzantine customer's wire-decoded amount (i64::MIN, MIN+1, -1, 0, 1, MAX, agreed+-1, random) reaches the real merchant with a proof made for another amount: refused without panic; and integer texts over the same lattice (and beyond 2^64) decoded as amounts and balances through serde_json: exactly that integer or refused. history: boundary-biased fault-free world histories against the i128 ledger, payments accepted end to end. Distinct = distinct case; every case is non-trivial (boundary or random values)".into()
    }
    fn assumptions(&self) -> Vec<String> {
        vec![
            "restricted claim: 'for all 64-bit inputs' is decided on the boundary lattice (all triples) and sampled beyond it; that clause is a pure function of its inputs".into(),
            "the simulator is built with overflow-checks = true so that wrapping arithmetic panics instead of passing silently".into(),
        ]
    }
    fn required_probes(&self, _tier: Tier) -> Vec<&'static str> {
        vec!["probe.extreme_payment_accepted", "probe.constructors_checked", "probe.lattice_start_ok", "probe.lattice_start_refused", "fault.byzantine.wire-amount", "probe.payment_completed", "probe.boundary_balance_reached"]
    }
}
