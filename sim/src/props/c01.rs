//! C01 — establishment soundness: the real merchant `initialize` / `activate` against a
//! Byzantine customer drawn from the forger family.

use crate::driver::{CaseSet, Outcome, Prop, Tier};
use crate::forge::*;
use crate::mctx::{merchant, MerchantCtx};
use crate::refc::{self, Raw1};
use crate::rng::{mix, Sched, SimRng};
use bls12_381::Scalar;
use ff::Field;
use serde_json::{json, Value};
use zkabacus_crypto as za;

pub struct C01;

pub const STRATEGIES: [(&str, usize); 13] = [
    ("negated-commitments", 3),
    ("residual-pair", 140),
    ("structured-lie", 8),
    ("compensating-shift", 5),
    ("control", 1),
    ("lying-honest-prover", 7),
    ("cross-slot", 4),
    ("per-relation", 12),
    ("adaptive-revealed", 4),
    ("adaptive-T", 2),
    ("adaptive-C", 2),
    ("adaptive-combo", 3),
    ("replayed-draft", 2),
];

struct Attempt {
    accepted: bool,
    rounds: usize,
    cs_bytes: Option<Vec<u8>>,
    vbs: Option<za::VerifiedBlindedState>,
}

/// probe -> (adapt) -> resubmit, up to three rounds. `build` maps a challenge to final bytes.
fn attack(m: &'static MerchantCtx, ag: &Agreed, seed: u64, draft_bytes: &[u8], build: &mut dyn FnMut(&Scalar) -> Vec<u8>, o: &mut Outcome) -> Attempt {
    let probe = present_establish(m, ag, draft_bytes, "c01/probe", seed);
    o.bump("event.establish-draft-probe");
    let mut c = match probe.challenge {
        Some(c) => c,
        None => {
            if !probe.decoded {
                crate::harness_error("C01: the forger's draft does not decode (layout drift?)");
            }
            crate::harness_error("C01: the hook recorded no challenge for a decoded draft");
        }
    };
    if let Some((cs, vbs)) = probe.accepted {
        // a draft with zero responses was accepted outright
        return Attempt { accepted: true, rounds: 0, cs_bytes: Some(cs), vbs: Some(vbs) };
    }
    for round in 1..=3 {
        let bytes = build(&c);
        let r = present_establish(m, ag, &bytes, &format!("c01/final/{}", round), seed);
        o.bump("event.establish-proof-presented");
        if round > 1 {
            o.bump("probe.adaptive_round2_sent");
        }
        if let Some((cs, vbs)) = r.accepted {
            return Attempt { accepted: true, rounds: round, cs_bytes: Some(cs), vbs: Some(vbs) };
        }
        match r.challenge {
            Some(c2) if c2 != c => c = c2,
            _ => return Attempt { accepted: false, rounds: round, cs_bytes: None, vbs: None },
        }
    }
    Attempt { accepted: false, rounds: 3, cs_bytes: None, vbs: None }
}

/// On acceptance: what do the returned signatures unblind to?
fn evidence(m: &'static MerchantCtx, at: Attempt, st_bf: &Scalar, cl_bf: &Scalar, h: &Hidden, seed: u64) -> String {
    let mut e = String::new();
    if let Some(cs) = &at.cs_bytes {
        let ok = unblinds_to_signature_on(m, cs, cl_bf, &h.cl);
        e.push_str(&format!("closing signature unblinds to a valid signature on the prover's hidden close state: {}; ", ok));
    }
    if let Some(vbs) = at.vbs {
        let mut rng = SimRng::new(seed, "c01/evidence/activate");
        let pt = m.cfg.activate(&mut rng, vbs);
        let ptb = crate::atoms::encode(&pt);
        let ok = unblinds_to_signature_on(m, &ptb, st_bf, &h.st);
        e.push_str(&format!("pay token unblinds to a valid signature on the prover's hidden state: {}", ok));
    }
    e
}

fn fmt_hidden(h: &Hidden, ag: &Agreed) -> String {
    let id = ag.id_scalar();
    let names = ["id", "slot1", "lock", "customer", "merchant"];
    let agreed = [id, refc::close_tag(), Scalar::zero(), Scalar::from(ag.cust), Scalar::from(ag.merch)];
    let mut d = Vec::new();
    for i in [0usize, 3, 4] {
        if h.st[i] != agreed[i] {
            d.push(format!("state.{} differs from agreed", names[i]));
        }
        if h.cl[i] != agreed[i] {
            d.push(format!("close.{} differs from agreed", names[i]));
        }
    }
    if h.cl[1] != refc::close_tag() {
        d.push("close state has no close tag".into());
    }
    if h.st[2] != h.cl[2] {
        d.push("state and close state have different locks".into());
    }
    d.join(", ")
}

fn run_case(o: &mut Outcome, case: &Value) {
    let seed = case["seed"].as_u64().unwrap_or(0);
    let strategy = case["strategy"].as_str().unwrap_or("control").to_string();
    let variant = case["variant"].as_u64().unwrap_or(0) as usize;
    let m = merchant(case["mspec"].as_str().unwrap_or("9001"));
    let mut s = Sched::new(seed, "c01");
    let cust = case["cust"].as_u64().unwrap_or(10);
    let merch = case["merch"].as_u64().unwrap_or(1000);
    let ag = fresh_agreed(m, &mut s, cust, merch, "c01");
    let template = est_template(m, &ag, seed);
    let (lock, _, _) = hash_lock(&mut s);
    let nonce = refc::rand_scalar(&mut s);
    let truth = Hidden::honest(&ag, nonce, lock);

    // ---- control (S0): the true statement through the same assembler must be accepted, and what
    // comes back must unblind to signatures on exactly the agreed state / close state.
    {
        let d = est_draft_linked(m, &truth, &mut s);
        let draft = assemble_est(&template, &d, None, &EstOverrides::default());
        let mut build = |c: &Scalar| assemble_est(&template, &d, Some(c), &EstOverrides::default());
        let at = attack(m, &ag, seed, &draft, &mut build, o);
        if !at.accepted {
            // is the library's own honest proof accepted? then the raw assembler has drifted
            let lib = present_establish(m, &ag, &template.bytes, "c01/control/lib", seed);
            if let Some((cs, _vbs)) = lib.accepted {
                // The library's own prover is accepted, the reference prover for the same agreed
                // values is not. Either the forger's layout has drifted, or the library maps the
                // agreed values to message scalars differently from the reference encoding. Decide
                // with the customer's own state: the returned closing signature, unblinded with the
                // blinding factor stored in the Requested stage, must satisfy the reference relation
                // on (reference id scalar, CLOSE, lock, reference balance scalars).
                let mut rng = SimRng::new(seed, "forge/est-template");
                let cb = za::CustomerBalance::try_new(ag.cust).unwrap();
                let mb = za::MerchantBalance::try_new(ag.merch).unwrap();
                let (req, _p) = za::customer::Requested::new(&mut rng, &m.ccfg, ag.cid, mb, cb, &ag.ctx());
                let img = crate::atoms::trace(&req);
                let bf = refc::sc(img.get("close_state_blinding_factor"));
                let lock = refc::sc(img.get("state.revocation_pair.lock"));
                let reference = [ag.id_scalar(), refc::close_tag(), lock, Scalar::from(ag.cust), Scalar::from(ag.merch)];
                if !unblinds_to_signature_on(m, &cs, &bf, &reference) {
                    o.violate(
                        "accepted-proof-signature-not-on-agreed-close-state",
                        "initialize/closing-signature(reference-encoding)",
                        "the closing signature returned for the library's own honest proof is not a signature on the agreed (channel id, CLOSE, lock, balances) under the reference encoding of those values: the library encodes an agreed value into the signed message differently".into(),
                    );
                    o.nontrivial = true;
                    return;
                }
                crate::harness_error("C01 control: the library's honest proof is accepted but the raw-assembled true statement is refused (forger layout drift)");
            }
            crate::harness_error("C01 control: honest establishment is refused by the merchant; forgers failing would prove nothing (see C04)");
        }
        o.bump("probe.control_accepted");
        let cs = at.cs_bytes.clone().unwrap();
        if !unblinds_to_signature_on(m, &cs, &d.cl.bf, &truth.cl) {
            o.violate(
                "accepted-proof-signature-not-on-agreed-close-state",
                "initialize/closing-signature",
                "the closing signature returned for a true statement does not unblind to a signature on the agreed close state".into(),
            );
        }
        // it must not verify on a close state differing in one slot, nor on the state itself
        for slot in 0..5 {
            let mut other = truth.cl;
            other[slot] += Scalar::one();
            if unblinds_to_signature_on(m, &cs, &d.cl.bf, &other) {
                o.violate("closing-signature-ignores-slot", &format!("initialize/closing-signature/slot{}", slot), "returned closing signature also verifies with one slot changed".into());
            }
        }
        // nor on a close state in which value moved between two slots (sum-preserving change)
        for (i, j) in [(3usize, 4usize), (0, 2), (1, 3), (2, 4), (0, 1), (1, 4)] {
            let mut other = truth.cl;
            other[i] += Scalar::one();
            other[j] -= Scalar::one();
            if unblinds_to_signature_on(m, &cs, &d.cl.bf, &other) {
                o.violate("closing-signature-ignores-slot", &format!("initialize/closing-signature/slots{}+{}", i, j), "returned closing signature also verifies when value is moved between two slots".into());
            }
        }
        {
            let mut other = truth.cl;
            other.swap(3, 4);
            if other != truth.cl && unblinds_to_signature_on(m, &cs, &d.cl.bf, &other) {
                o.violate("closing-signature-ignores-slot", "initialize/closing-signature/balances-swapped", "returned closing signature also verifies with the balances swapped".into());
            }
        }
        if let Some(vbs) = at.vbs {
            let mut rng = SimRng::new(seed, "c01/control/activate");
            let pt = crate::atoms::encode(&m.cfg.activate(&mut rng, vbs));
            if !unblinds_to_signature_on(m, &pt, &d.st.bf, &truth.st) {
                o.violate(
                    "accepted-proof-signature-not-on-agreed-state",
                    "activate/pay-token",
                    "the pay token issued for a true statement does not unblind to a signature on the agreed state".into(),
                );
            }
            if unblinds_to_signature_on(m, &pt, &d.st.bf, &truth.cl) {
                o.violate("pay-token-valid-on-close-state", "activate/pay-token", "the pay token verifies as a signature on the close state".into());
            }
        }
    }
    if strategy == "control" {
        o.nontrivial = false;
        return;
    }

    // ---- the attack
    let delta = Scalar::from(1 + s.below(5000));
    let (g, ys) = pk_gens(m);
    let mut site = format!("{}/{}", strategy, variant);
    let accepted: Option<(Attempt, Hidden, Scalar, Scalar)>;
    match strategy.as_str() {
        "lying-honest-prover" => {
            // the library's own prover run on values differing from the agreed ones in one slot
            let (c2, m2, other_id) = match variant {
                0 => (cust.wrapping_add(1) & (i64::MAX as u64), merch, false),
                1 => (cust.saturating_sub(1), merch, false),
                2 => (cust, merch.wrapping_add(1) & (i64::MAX as u64), false),
                3 => (merch, cust, false),
                4 => (cust, merch, true),
                5 => (i64::MAX as u64, 0, false),
                _ => (0, i64::MAX as u64, false),
            };
            if c2 == cust && m2 == merch && !other_id {
                o.bump("probe.degenerate_variant_skipped");
                return;
            }
            let ag2 = if other_id { fresh_agreed(m, &mut s, cust, merch, "c01-other") } else { Agreed { cid: ag.cid, cust: c2, merch: m2, ctx_bytes: ag.ctx_bytes.clone() } };
            let t2 = est_template(m, &ag2, mix(&[seed, 77]));
            let r = present_establish(m, &ag, &t2.bytes, "c01/lying", seed);
            o.bump("event.establish-proof-presented");
            o.bump("fault.byzantine.lying-honest-prover");
            site = format!("lying-honest-prover/{}", ["customer+1", "customer-1", "merchant+1", "balances-swapped", "other-channel-id", "max-0", "0-max"][variant.min(6)]);
            if r.accepted.is_some() {
                o.violate("false-establish-accepted", &site, format!("a proof made honestly for ({}, {}) was accepted for agreed ({}, {})", c2, m2, cust, merch));
            }
            o.nontrivial = true;
            return;
        }
        "cross-slot" => {
            let mut h = truth.clone();
            match variant {
                0 => {
                    h.st.swap(3, 4);
                    h.cl.swap(3, 4);
                    if h.st[3] == h.st[4] {
                        h.st[3] += Scalar::one();
                        h.cl[3] += Scalar::one();
                    }
                    site = "cross-slot/balances-swapped".into();
                }
                1 => {
                    h.cl[1] = h.st[1];
                    site = "cross-slot/nonce-in-close-tag-slot".into();
                }
                2 => {
                    h.st.swap(0, 2);
                    h.cl.swap(0, 2);
                    site = "cross-slot/lock-and-id-swapped".into();
                }
                _ => {
                    h.cl[3] = h.st[4];
                    h.cl[4] = h.st[3];
                    if h.cl[3] == h.st[3] {
                        h.cl[3] += Scalar::one();
                    }
                    site = "cross-slot/close-balances-swapped".into();
                }
            }
            o.bump("fault.byzantine.cross-slot");
            let d = est_draft_linked(m, &h, &mut s);
            let draft = assemble_est(&template, &d, None, &EstOverrides::default());
            let mut build = |c: &Scalar| assemble_est(&template, &d, Some(c), &EstOverrides::default());
            let at = attack(m, &ag, seed, &draft, &mut build, o);
            accepted = if at.accepted { Some((at, h, d.st.bf, d.cl.bf)) } else { None };
        }
        "per-relation" => {
            // violate one conjunct alone
            let mut h = truth.clone();
            let mut d0 = est_draft_linked(m, &h, &mut s);
            let mut tamper_bf = false;
            let mut foreign_t: Option<(bool, bls12_381::G1Projective)> = None;
            let names = [
                "state-id", "close-id", "close-tag", "state-lock", "state-customer", "close-customer", "state-merchant", "close-merchant", "state-bf-response", "close-bf-response", "state-foreign-T", "close-foreign-T",
            ];
            site = format!("per-relation/{}", names[variant.min(11)]);
            let mut rebuild = |h: &Hidden, st_slot: Option<usize>, cl_slot: Option<usize>, s: &mut Sched| -> EstDraft {
                // independent commitment scalar on the unlinked slot, everything else consistent
                let mut ss = d0.st.s.clone();
                let mut sc = d0.cl.s.clone();
                if let Some(k) = st_slot {
                    ss[k] = refc::rand_scalar(s);
                }
                if let Some(k) = cl_slot {
                    sc[k] = refc::rand_scalar(s);
                }
                let st = Raw1::new(g, ys.clone(), h.st.to_vec(), d0.st.bf, d0.st.s_bf, ss);
                let cl = Raw1::new(g, ys.clone(), h.cl.to_vec(), d0.cl.bf, d0.cl.s_bf, sc);
                EstDraft { cs: d0.cs, st, cl }
            };
            match variant {
                0 => {
                    h.st[0] += delta;
                    d0 = rebuild(&h, Some(0), None, &mut s);
                }
                1 => {
                    h.cl[0] += delta;
                    d0 = rebuild(&h, None, Some(0), &mut s);
                }
                2 => {
                    h.cl[1] += delta;
                    d0 = rebuild(&h, None, None, &mut s);
                }
                3 => {
                    h.st[2] += delta;
                    d0 = rebuild(&h, Some(2), None, &mut s);
                }
                4 => {
                    h.st[3] += delta;
                    d0 = rebuild(&h, Some(3), None, &mut s);
                }
                5 => {
                    h.cl[3] += delta;
                    d0 = rebuild(&h, None, Some(3), &mut s);
                }
                6 => {
                    h.st[4] += delta;
                    d0 = rebuild(&h, Some(4), None, &mut s);
                }
                7 => {
                    h.cl[4] += delta;
                    d0 = rebuild(&h, None, Some(4), &mut s);
                }
                8 | 9 => tamper_bf = true,
                10 => foreign_t = Some((true, refc::rand_g1(&mut s))),
                _ => foreign_t = Some((false, refc::rand_g1(&mut s))),
            }
            o.bump("fault.byzantine.per-relation");
            let d = d0.clone();
            let mut ov0 = EstOverrides::default();
            if let Some((is_state, t)) = foreign_t {
                if is_state {
                    ov0.st_t = Some(t);
                } else {
                    ov0.cl_t = Some(t);
                }
            }
            let draft = assemble_est(&template, &d, None, &ov0);
            let mut build = |c: &Scalar| {
                let mut ov = EstOverrides::default();
                if let Some((is_state, t)) = foreign_t {
                    if is_state {
                        ov.st_t = Some(t);
                    } else {
                        ov.cl_t = Some(t);
                    }
                }
                if tamper_bf {
                    if variant == 8 {
                        let (zbf, z) = d.st.respond(c);
                        ov.st_resp = Some((zbf + Scalar::one(), z));
                    } else {
                        let (zbf, z) = d.cl.respond(c);
                        ov.cl_resp = Some((zbf + Scalar::one(), z));
                    }
                }
                assemble_est(&template, &d, Some(c), &ov)
            };
            let at = attack(m, &ag, seed, &draft, &mut build, o);
            if at.accepted && h.is_true_for(&ag) {
                // the statement is true but a sub-proof was invalid (wrong response / foreign T)
                o.violate("invalid-subproof-accepted", &site, "an establish proof with an invalid sub-proof (wrong blinding-factor response or foreign scalar commitment) was accepted".into());
                o.nontrivial = true;
                return;
            }
            accepted = if at.accepted { Some((at, h, d.st.bf, d.cl.bf)) } else { None };
        }
        "adaptive-revealed" | "adaptive-combo" => {
            // hidden pair false in the slot(s) of the revealed scalar(s); the revealed commitment
            // scalar is chosen after the challenge: cs := z - c * public
            let mut h = truth.clone();
            let fields: Vec<usize> = if strategy == "adaptive-revealed" {
                vec![variant % 4]
            } else {
                match variant {
                    0 => vec![2, 3],
                    1 => vec![0, 2, 3],
                    _ => vec![0, 1, 2, 3],
                }
            };
            for f in &fields {
                match f {
                    0 => {
                        h.st[0] += delta;
                        h.cl[0] += delta;
                    }
                    1 => h.cl[1] = refc::rand_scalar(&mut s),
                    2 => {
                        h.st[3] += Scalar::from(1000u64);
                        h.cl[3] += Scalar::from(1000u64);
                    }
                    _ => {
                        // e.g. agreed merchant balance 1000, hidden 0
                        h.st[4] = Scalar::zero() + delta;
                        h.cl[4] = h.st[4];
                        if h.st[4] == Scalar::from(ag.merch) {
                            h.st[4] += Scalar::one();
                            h.cl[4] = h.st[4];
                        }
                    }
                }
            }
            site = format!("adaptive/{}", fields.iter().map(|f| EST_REVEALED[*f]).collect::<Vec<_>>().join("+"));
            o.bump("fault.byzantine.adaptive-revealed-scalar");
            let d = est_draft_linked(m, &h, &mut s);
            let draft = assemble_est(&template, &d, None, &EstOverrides::default());
            let publics = [ag.id_scalar(), refc::close_tag(), Scalar::from(ag.cust), Scalar::from(ag.merch)];
            let slot_of = [0usize, 1, 3, 4];
            let mut build = |c: &Scalar| {
                let mut d2 = d.clone();
                let (_, zc) = d.cl.respond(c);
                for f in &fields {
                    d2.cs[*f] = zc[slot_of[*f]] - c * publics[*f];
                }
                assemble_est(&template, &d2, Some(c), &EstOverrides::default())
            };
            let at = attack(m, &ag, seed, &draft, &mut build, o);
            accepted = if at.accepted { Some((at, h, d.st.bf, d.cl.bf)) } else { None };
        }
        "adaptive-T" => {
            // simulate one sub-proof: commit to a false message, pick responses that satisfy every
            // equation for the agreed values, and choose T := Com(z) - c*C after the challenge
            let mut h = truth.clone();
            let on_state = variant % 2 == 0;
            if on_state {
                h.st[3] += Scalar::from(1000u64);
                h.st[4] = delta;
            } else {
                h.cl[3] += Scalar::from(1000u64);
                h.cl[4] = delta;
            }
            site = format!("adaptive/{}", if on_state { "state_proof.scalar_commitment" } else { "close_state_proof.scalar_commitment" });
            o.bump("fault.byzantine.adaptive-scalar-commitment");
            // honest linking w.r.t. the TRUE values for the other sub-proof
            let dt = est_draft_linked(m, &truth, &mut s);
            let false_raw = if on_state {
                Raw1::new(g, ys.clone(), h.st.to_vec(), dt.st.bf, dt.st.s_bf, dt.st.s.clone())
            } else {
                Raw1::new(g, ys.clone(), h.cl.to_vec(), dt.cl.bf, dt.cl.s_bf, dt.cl.s.clone())
            };
            let d = if on_state { EstDraft { cs: dt.cs, st: false_raw.clone(), cl: dt.cl.clone() } } else { EstDraft { cs: dt.cs, st: dt.st.clone(), cl: false_raw.clone() } };
            let draft = assemble_est(&template, &d, None, &EstOverrides::default());
            let zbf = refc::rand_scalar(&mut s);
            let mut build = |c: &Scalar| {
                // responses as the TRUE statement would give them (they satisfy all equations)
                let (_, z_true) = if on_state { dt.st.respond(c) } else { dt.cl.respond(c) };
                let t = refc::commit_g1(&g, &ys, &zbf, &z_true) - false_raw.c * c;
                let mut ov = EstOverrides::default();
                if on_state {
                    ov.st_t = Some(t);
                    ov.st_resp = Some((zbf, z_true));
                } else {
                    ov.cl_t = Some(t);
                    ov.cl_resp = Some((zbf, z_true));
                }
                assemble_est(&template, &d, Some(c), &ov)
            };
            let at = attack(m, &ag, seed, &draft, &mut build, o);
            accepted = if at.accepted { Some((at, h, d.st.bf, d.cl.bf)) } else { None };
        }
        "adaptive-C" => {
            // choose the commitment itself after the challenge: the slot's commitment scalar is
            // offset by delta before the challenge, the committed value absorbs delta / c afterwards
            let on_state = variant % 2 == 0;
            site = format!("adaptive/{}", if on_state { "state_proof.commitment" } else { "close_state_proof.commitment" });
            o.bump("fault.byzantine.adaptive-commitment");
            let dt = est_draft_linked(m, &truth, &mut s);
            let mut sv = if on_state { dt.st.s.clone() } else { dt.cl.s.clone() };
            sv[3] -= delta;
            let base = if on_state { &dt.st } else { &dt.cl };
            let pre = Raw1::new(g, ys.clone(), base.m.clone(), base.bf, base.s_bf, sv.clone());
            let d = if on_state { EstDraft { cs: dt.cs, st: pre.clone(), cl: dt.cl.clone() } } else { EstDraft { cs: dt.cs, st: dt.st.clone(), cl: pre.clone() } };
            let draft = assemble_est(&template, &d, None, &EstOverrides::default());
            let mut last_hidden = truth.clone();
            let mut build = |c: &Scalar| {
                let cinv: Option<Scalar> = c.invert().into();
                let cinv = cinv.unwrap_or(Scalar::one());
                let mut mm = pre.m.clone();
                mm[3] += delta * cinv;
                let adapted = Raw1::new(g, ys.clone(), mm.clone(), pre.bf, pre.s_bf, sv.clone());
                let mut hh = truth.clone();
                if on_state {
                    hh.st[3] = mm[3];
                } else {
                    hh.cl[3] = mm[3];
                }
                last_hidden = hh;
                let d2 = if on_state { EstDraft { cs: dt.cs, st: adapted, cl: dt.cl.clone() } } else { EstDraft { cs: dt.cs, st: dt.st.clone(), cl: adapted } };
                assemble_est(&template, &d2, Some(c), &EstOverrides::default())
            };
            let at = attack(m, &ag, seed, &draft, &mut build, o);
            accepted = if at.accepted { Some((at, last_hidden, dt.st.bf, dt.cl.bf)) } else { None };
        }
        "structured-lie" => {
            // lies that a sloppy comparison might let through, proved with the honest linking:
            // balances congruent to the agreed ones modulo 2^64 / 2^128, and two-slot lies inside
            // one message whose offsets cancel in a sum
            let mut h = truth.clone();
            let two64 = refc::int_scalar(1i128 << 64);
            let names = ["customer+2^64", "merchant+3*2^64", "both+2^64", "customer+2^128", "close-balances-sum-preserving", "state-balances-sum-preserving", "both-messages-sum-preserving", "id+2^64"];
            match variant % 8 {
                0 => {
                    h.st[3] += two64;
                    h.cl[3] += two64;
                }
                1 => {
                    h.st[4] += two64 + two64 + two64;
                    h.cl[4] = h.st[4];
                }
                2 => {
                    h.st[3] += two64;
                    h.cl[3] += two64;
                    h.st[4] += two64;
                    h.cl[4] += two64;
                }
                3 => {
                    h.st[3] += two64 * two64;
                    h.cl[3] = h.st[3];
                }
                4 => {
                    h.cl[3] += delta;
                    h.cl[4] -= delta;
                }
                5 => {
                    h.st[3] += delta;
                    h.st[4] -= delta;
                }
                6 => {
                    h.st[3] += delta;
                    h.st[4] -= delta;
                    h.cl[3] += delta;
                    h.cl[4] -= delta;
                }
                _ => {
                    h.st[0] += two64;
                    h.cl[0] += two64;
                }
            }
            site = format!("structured-lie/{}", names[variant % 8]);
            o.bump("fault.byzantine.structured-lie");
            let d = est_draft_linked(m, &h, &mut s);
            let draft = assemble_est(&template, &d, None, &EstOverrides::default());
            let mut build = |c: &Scalar| assemble_est(&template, &d, Some(c), &EstOverrides::default());
            let at = attack(m, &ag, seed, &draft, &mut build, o);
            accepted = if at.accepted { Some((at, h, d.st.bf, d.cl.bf)) } else { None };
        }
        "compensating-shift" => {
            // two cooperating sub-proofs: the state commits to the agreed value minus delta in one
            // slot, the close state to the agreed value plus delta; T's are honest and the responses
            // are those of the TRUE statement. Each sub-proof's Schnorr equation fails on its own,
            // but the two errors cancel in any check that only looks at the sum.
            let slot = [3usize, 4, 0, 2, 1][variant % 5];
            let dt = est_draft_linked(m, &truth, &mut s);
            let mut h = truth.clone();
            h.st[slot] -= delta;
            h.cl[slot] += delta;
            site = format!("compensating-shift/slot{}", slot);
            o.bump("fault.byzantine.compensating-shift");
            let c_st = refc::commit_g1(&g, &ys, &dt.st.bf, &h.st);
            let c_cl = refc::commit_g1(&g, &ys, &dt.cl.bf, &h.cl);
            let mut ov0 = EstOverrides::default();
            ov0.st_c = Some(c_st);
            ov0.cl_c = Some(c_cl);
            let draft = assemble_est(&template, &dt, None, &ov0);
            let mut build = |c: &Scalar| {
                let mut ov = EstOverrides::default();
                ov.st_c = Some(c_st);
                ov.cl_c = Some(c_cl);
                assemble_est(&template, &dt, Some(c), &ov)
            };
            let at = attack(m, &ag, seed, &draft, &mut build, o);
            accepted = if at.accepted { Some((at, h, dt.st.bf, dt.cl.bf)) } else { None };
        }
        "residual-pair" => {
            // The verifier's eight slot equations have residuals r_k = c*a_k + b_k, where a_k is the
            // lie in that slot (hidden value minus agreed value / minus the linked slot) and b_k the
            // offset of its mask (commitment scalar minus the revealed / linked one). A verifier
            // that folds them into ONE weighted sum can be satisfied without every r_k being zero:
            // equal weights by a_i = -a_j (value-value), weights that differ by a factor c (powers
            // of the challenge as "batching randomisers") by b_j = -a_i (value-mask). Every ordered
            // pair of equations, both kinds; the sub-proofs themselves stay valid.
            const EQ: [(bool, usize, &str); 8] = [(true, 0, "state-id"), (false, 0, "close-id"), (false, 1, "close-tag"), (true, 2, "lock-link"), (true, 3, "state-customer"), (false, 3, "close-customer"), (true, 4, "state-merchant"), (false, 4, "close-merchant")];
            let mut pairs: Vec<(usize, usize, u8)> = Vec::new();
            for i in 0..8 {
                for j in 0..8 {
                    if i == j {
                        continue;
                    }
                    if i < j {
                        pairs.push((i, j, 0));
                    }
                    pairs.push((i, j, 1));
                    pairs.push((i, j, 2));
                }
            }
            let (i, j, kind) = pairs[variant % pairs.len()];
            let mut h = truth.clone();
            let lie = |h: &mut Hidden, k: usize, d: Scalar| {
                let (on_state, slot, _) = EQ[k];
                if on_state {
                    h.st[slot] += d;
                } else {
                    h.cl[slot] += d;
                }
            };
            lie(&mut h, i, delta);
            if kind == 0 {
                lie(&mut h, j, -delta);
            }
            let d0 = est_draft_linked(m, &h, &mut s);
            let d = if kind == 0 {
                d0
            } else {
                let off = if kind == 1 { -delta } else { delta };
                let (on_state, slot, _) = EQ[j];
                let (mut ss, mut sc) = (d0.st.s.clone(), d0.cl.s.clone());
                if on_state {
                    ss[slot] += off;
                } else {
                    sc[slot] += off;
                }
                let st = Raw1::new(g, ys.clone(), h.st.to_vec(), d0.st.bf, d0.st.s_bf, ss);
                let cl = Raw1::new(g, ys.clone(), h.cl.to_vec(), d0.cl.bf, d0.cl.s_bf, sc);
                EstDraft { cs: d0.cs, st, cl }
            };
            site = format!("residual-pair/{}/{}/{}", ["value-value", "value-mask-minus", "value-mask-plus"][kind as usize], EQ[i].2, EQ[j].2);
            o.bump("fault.byzantine.residual-pair");
            let draft = assemble_est(&template, &d, None, &EstOverrides::default());
            let mut build = |c: &Scalar| assemble_est(&template, &d, Some(c), &EstOverrides::default());
            let at = attack(m, &ag, seed, &draft, &mut build, o);
            accepted = if at.accepted { Some((at, h, d.st.bf, d.cl.bf)) } else { None };
        }
        "negated-commitments" => {
            // the honest proof for the agreed values with C and T of one or both sub-proofs replaced
            // by their inverses (same x-coordinate): the responses are the ordinary ones, each
            // opening equation then holds "up to sign" only. Accepted by a verifier that compares
            // the two sides through an encoding that drops the sign; the merchant then signs the
            // NEGATED message.
            let d = est_draft_linked(m, &truth, &mut s);
            let (neg_st, neg_cl) = [(true, true), (true, false), (false, true)][variant % 3];
            let mut h = truth.clone();
            let mut ov = EstOverrides::default();
            if neg_st {
                ov.st_c = Some(-d.st.c);
                ov.st_t = Some(-d.st.t);
                for x in h.st.iter_mut() {
                    *x = -*x;
                }
            }
            if neg_cl {
                ov.cl_c = Some(-d.cl.c);
                ov.cl_t = Some(-d.cl.t);
                for x in h.cl.iter_mut() {
                    *x = -*x;
                }
            }
            site = format!("negated-commitments/{}", ["both", "state", "close-state"][variant % 3]);
            o.bump("fault.byzantine.negated-commitments");
            let draft = assemble_est(&template, &d, None, &ov);
            let mut build = |c: &Scalar| assemble_est(&template, &d, Some(c), &ov);
            let at = attack(m, &ag, seed, &draft, &mut build, o);
            let (sbf, cbf) = (if neg_st { -d.st.bf } else { d.st.bf }, if neg_cl { -d.cl.bf } else { d.cl.bf });
            accepted = if at.accepted { Some((at, h, sbf, cbf)) } else { None };
        }
        "replayed-draft" => {
            // a proof accepted in one session (true there) presented in another session whose agreed
            // values differ: other context / other balances
            let d = est_draft_linked(m, &truth, &mut s);
            let draft = assemble_est(&template, &d, None, &EstOverrides::default());
            let mut build = |c: &Scalar| assemble_est(&template, &d, Some(c), &EstOverrides::default());
            let mut final_bytes = Vec::new();
            {
                let mut build2 = |c: &Scalar| {
                    final_bytes = build(c);
                    final_bytes.clone()
                };
                let at = attack(m, &ag, seed, &draft, &mut build2, o);
                if !at.accepted {
                    crate::harness_error("C01 replayed-draft: the true proof was refused");
                }
            }
            let ag2 = if variant == 0 {
                Agreed { cid: ag.cid, cust, merch, ctx_bytes: [ag.ctx_bytes.clone(), vec![1]].concat() }
            } else {
                Agreed { cid: ag.cid, cust: cust ^ 1, merch, ctx_bytes: ag.ctx_bytes.clone() }
            };
            site = format!("replayed-proof/{}", if variant == 0 { "other-context" } else { "other-balance" });
            o.bump("fault.byzantine.replayed-proof");
            let r = present_establish(m, &ag2, &final_bytes, "c01/replayed", seed);
            o.bump("event.establish-proof-presented");
            if r.accepted.is_some() {
                o.violate("false-establish-accepted", &site, "a proof accepted in one session was accepted again under other agreed values / context".into());
            }
            o.nontrivial = true;
            return;
        }
        _ => crate::harness_error("C01: unknown strategy"),
    }
    o.nontrivial = true;
    if let Some((at, h, st_bf, cl_bf)) = accepted {
        if h.is_true_for(&ag) {
            crate::harness_error("C01: an attack's hidden pair is true for the agreed values (harness bug)");
        }
        let rounds = at.rounds;
        let ev = evidence(m, at, &st_bf, &cl_bf, &h, seed);
        o.violate(
            "false-establish-accepted",
            &site,
            format!(
                "agreed (customer {}, merchant {}); initialize accepted in round {} a proof whose hidden pair is false: {}; {}",
                cust,
                merch,
                rounds,
                fmt_hidden(&h, &ag),
                ev
            ),
        );
    } else {
        o.bump("probe.attack_refused");
    }
}

impl Prop for C01 {
    fn id(&self) -> &'static str {
        "C01"
    }
    fn level(&self) -> &'static str {
        "exploration"
    }
    fn cases(&self, tier: Tier, seed: u64) -> CaseSet {
        let per = match tier {
            Tier::Quick => 12,
            Tier::Thorough => 1500,
        };
        let lattice: [u64; 8] = crate::plangen::LATTICE;
        let mut v = Vec::new();
        let mut sch = Sched::new(seed, "c01/cases");
        for rep in 0..per {
            for (name, nvar) in STRATEGIES.iter() {
                if *name == "residual-pair" && tier == Tier::Quick && rep >= 1 {
                    // the pair family is enumerated once in the quick tier
                    continue;
                }
                for variant in 0..*nvar {
                    let (cust, merch) = if rep == 0 {
                        (10, 1000)
                    } else if sch.chance(1, 2) {
                        (*sch.pick(&lattice), *sch.pick(&lattice))
                    } else {
                        (sch.u64() >> (1 + sch.usize(50)), sch.u64() >> (1 + sch.usize(50)))
                    };
                    let mspec = if rep % 3 == 2 { "9002" } else { "9001" };
                    v.push(json!({"seed": mix(&[seed, 0xC01, rep as u64, crate::hash_str(name), variant as u64]),
                                  "strategy": name, "variant": variant, "cust": cust, "merch": merch, "mspec": mspec}));
                }
            }
        }
        CaseSet { enumerated: v, random: 0, exhaustive: false }
    }
    fn random_case(&self, _tier: Tier, seed: u64, idx: usize) -> Value {
        json!({"seed": mix(&[seed, idx as u64]), "strategy": "control", "variant": 0, "cust": 10, "merch": 1000, "mspec": "9001"})
    }
    fn run(&self, case: &Value) -> Outcome {
        let mut o = Outcome::default();
        run_case(&mut o, case);
        o.events = o.stats.iter().filter(|(k, _)| k.starts_with("event.")).map(|(_, v)| *v).sum();
        o.shape = mix(&[crate::hash_str(case["strategy"].as_str().unwrap_or("")), case["variant"].as_u64().unwrap_or(0), case["cust"].as_u64().unwrap_or(0), case["merch"].as_u64().unwrap_or(0), case["seed"].as_u64().unwrap_or(0)]);
        o.log_hash = mix(&[o.shape, o.events, o.violations.len() as u64]);
        o
    }
    fn shrink(&self, case: &Value) -> Vec<Value> {
        let mut v = Vec::new();
        if case["cust"] != 10 || case["merch"] != 1000 {
            let mut c = case.clone();
            c["cust"] = json!(10);
            c["merch"] = json!(1000);
            v.push(c);
        }
        v
    }
    fn rule(&self) -> String {
        "one case = one session between the real merchant (initialize, then activate) and a Byzantine customer: fresh agreed (channel id, balances from the boundary lattice or random, context); after the accept-the-truth control the actor runs one strategy of the family {honest prover lying in one slot (7), cross-slot substitution (4), one violated relation / invalid sub-proof (12), compensating shifts between the two sub-proofs (5), the honest proof with C and T of one or both sub-proofs negated (3), residual pairs (every ordered pair of the eight slot equations: lie in one, opposite lie or mask offset of -/+ the same amount in the other; 140), structured lies (balances congruent mod 2^64 / 2^128, sum-preserving two-slot lies) (8), post-challenge choice of each revealed commitment scalar (4), of each scalar commitment T (2), of each commitment C (2), of several at once (3), replay of an accepted proof under other agreed values (2)} using probe -> read the merchant's challenge through the hook -> adapt -> resubmit (up to three rounds). Distinct = distinct (strategy, variant, balances, seed); non-trivial = an attack (not just the control) was run".into()
    }
    fn assumptions(&self) -> Vec<String> {
        vec![
            "soundness is checked against the named forger family, not all provers".into(),
            "the forger fills proof fields by path into the layout of a library-produced proof; the accept-the-truth control in every case guards that layout".into(),
            "challenge observed through the verif-hooks challenge recorder, never recomputed by the harness".into(),
        ]
    }
    fn required_probes(&self, _tier: Tier) -> Vec<&'static str> {
        vec!["probe.control_accepted", "probe.attack_refused", "fault.byzantine.adaptive-revealed-scalar", "fault.byzantine.adaptive-scalar-commitment", "fault.byzantine.adaptive-commitment", "fault.byzantine.per-relation", "fault.byzantine.cross-slot", "fault.byzantine.lying-honest-prover", "fault.byzantine.compensating-shift", "fault.byzantine.residual-pair", "fault.byzantine.negated-commitments"]
    }
}
