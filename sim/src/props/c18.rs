//! C18 — pay tokens and closing signatures can never stand in for each other.
//!
//! (a) entropy-seam fault enumeration: the close tag is injected at every recorded scalar draw
//!     of `Requested::new` and of the first draws of `Ready::start` (windows of width 1-3);
//! (b) nonce encodings equal (or congruent) to the close tag must not decode;
//! (c) in real histories a pay token re-labelled as closing signature (and vice versa) fails;
//! (d) channel-id derivation changes with each single input.

use crate::atoms::{self, AtomKind, Trace};
use crate::driver::{CaseSet, Outcome, Prop, Tier};
use crate::mctx::merchant;
use crate::plangen::{gen_plan, Profile};
use crate::props::world_props::{case_of, keep, plan_of, run_plan, shrink_world_case};
use crate::refc;
use crate::rng::{mix, DrawKind, EntropyFault, Sched, SimRng};
use crate::world::ReplyFault;
use bls12_381::Scalar;
use serde_json::{json, Value};
use std::collections::BTreeMap;
use zkabacus_crypto as za;
use zkabacus_crypto::Verification;

pub struct C18;
const MSPEC: &str = "9001";

fn tag_wide() -> Vec<u8> {
    // 64 bytes that `Scalar::from_bytes_wide` maps to the close tag
    let mut b = refc::scb(&refc::close_tag()).to_vec();
    b.extend_from_slice(&[0u8; 32]);
    b
}

fn faulty_rng(seed: u64, label: &str, at: usize, width: usize) -> SimRng {
    let mut f = BTreeMap::new();
    for i in at..at + width {
        f.insert(i, EntropyFault::Bytes(tag_wide()));
    }
    SimRng::with_faults(seed, label, f)
}

struct Session {
    ready: za::customer::Ready,
    cid: za::ChannelId,
}

/// Honest establishment; `new_rng` is the (possibly faulty) entropy source of `Requested::new`.
fn establish(o: &mut Outcome, seed: u64, new_rng: &mut SimRng, cb: u64, mb: u64) -> Option<(za::customer::Ready, Trace)> {
    let m = merchant(MSPEC);
    let mut rng = SimRng::new(seed, "c18/est/other");
    let cid = za::ChannelId::new(za::MerchantRandomness::new(&mut rng), za::CustomerRandomness::new(&mut rng), m.cfg.signing_keypair().public_key(), b"m-acct", b"c-acct");
    let ctx = za::Context::new(format!("c18-est-{}", seed).as_bytes());
    let cbal = za::CustomerBalance::try_new(cb).unwrap();
    let mbal = za::MerchantBalance::try_new(mb).unwrap();
    let (req, proof) = za::customer::Requested::new(new_rng, &m.ccfg, cid, mbal, cbal, &ctx);
    let req_img = atoms::trace(&req);
    o.events += 1;
    let (cs, vbs) = match m.cfg.initialize(&mut rng, &cid, cbal, mbal, proof, &ctx) {
        Some(x) => x,
        None => {
            o.bump("probe.establish_refused_under_entropy_fault");
            return None;
        }
    };
    let inactive = req.complete(cs, &m.ccfg).ok()?;
    let ready = inactive.activate(m.cfg.activate(&mut rng, vbs), &m.ccfg).ok()?;
    o.events += 3;
    let _ = Session { ready: bincode::deserialize(&atoms::encode(&ready)).ok()?, cid };
    Some((ready, req_img))
}

fn nonce_check(o: &mut Outcome, site: &str, nonce_bytes: &[u8], detail: String) {
    if nonce_bytes == refc::scb(&refc::close_tag()) {
        o.violate("nonce-equals-close-tag", site, detail);
    } else {
        o.bump("probe.nonce_differs_from_tag");
    }
}

fn entropy_new(o: &mut Outcome, seed: u64, at: Option<usize>, width: usize, drive: bool) {
    let label = "c18/requested-new";
    let mut base = SimRng::new(seed, label);
    let m = merchant(MSPEC);
    // baseline draw count
    {
        let mut r0 = SimRng::new(seed, "c18/est/other0");
        let cid = za::ChannelId::new(za::MerchantRandomness::new(&mut r0), za::CustomerRandomness::new(&mut r0), m.cfg.signing_keypair().public_key(), b"m-acct", b"c-acct");
        let _ = za::customer::Requested::new(&mut base, &m.ccfg, cid, za::MerchantBalance::try_new(5).unwrap(), za::CustomerBalance::try_new(50).unwrap(), &za::Context::new(b"x"));
    }
    let ndraws = base.draws.len();
    let mut rng = match at {
        Some(a) => faulty_rng(seed, label, a, width),
        None => SimRng::new(seed, label),
    };
    let r = establish(o, seed, &mut rng, 50, 5);
    o.add("fault.entropy.close-tag-draw", rng.faults_fired as u64);
    if rng.draws.len() > ndraws {
        o.bump("probe.nonce_retry_taken");
    }
    let (ready, req_img) = match r {
        Some(x) => x,
        None => return,
    };
    // by role: the nonce atom of the state image
    let img = atoms::trace(&ready);
    let by_role = img.get("state.nonce").to_vec();
    nonce_check(o, "Requested::new", &by_role, format!("close tag injected at draw {:?} (width {}) of Requested::new: the state's nonce is the close tag", at, width));
    nonce_check(o, "Requested::new", req_img.get("state.nonce"), format!("close tag injected at draw {:?} (width {}): Requested image", at, width));
    // the stored stage must still be restorable (a nonce equal to the tag would not decode)
    if bincode::deserialize::<za::customer::Ready>(&img.bytes).is_err() {
        o.violate("stored-stage-rejected", "customer::ready", format!("stage produced under an entropy fault at draw {:?} does not decode", at));
    }
    if drive {
        // through the public API: the nonce is shown by the next payment
        let mut r2 = SimRng::new(seed, "c18/drive/start");
        let amt = za::PaymentAmount::pay_merchant(1).unwrap();
        match ready.start(&mut r2, amt, &za::Context::new(b"c18-drive"), &m.ccfg) {
            Ok((_st, sm)) => {
                let shown = atoms::encode(&sm.nonce);
                o.events += 1;
                if shown != by_role {
                    crate::harness_error("C18: the nonce shown by the next payment is not the `state.nonce` atom of the stage image (role table drift)");
                }
                o.bump("probe.role_control_passed");
                nonce_check(o, "StartMessage.nonce", &shown, format!("close tag injected at draw {:?} of Requested::new: the nonce shown at the next payment is the close tag", at));
                if bincode::deserialize::<za::Nonce>(&shown).is_err() {
                    o.violate("shown-nonce-does-not-decode", "StartMessage.nonce", "the merchant-side Nonce decoder refuses the shown nonce".into());
                }
            }
            Err(_) => crate::harness_error("C18: an admissible payment could not be started"),
        }
    }
}

fn entropy_start(o: &mut Outcome, seed: u64, at: Option<usize>, width: usize, drive: bool) {
    entropy_start_rel(o, seed, at, width, drive, "")
}

/// `rel`: what the faulty draws reduce to - the close tag itself (""), or a value related to the
/// customer's current state so that a nonce *derived* from the draw and the old state lands on the
/// tag: tag - old nonce, tag + old nonce, tag - old lock.
fn entropy_start_rel(o: &mut Outcome, seed: u64, at: Option<usize>, width: usize, drive: bool, rel: &str) {
    let m = merchant(MSPEC);
    let mut healthy = SimRng::new(seed, "c18/start/establish");
    let (ready, _) = match establish(o, seed, &mut healthy, 60, 6) {
        Some(x) => x,
        None => crate::harness_error("C18: honest establishment failed (positive control)"),
    };
    let image = atoms::encode(&ready);
    let label = "c18/ready-start";
    let amt = za::PaymentAmount::pay_merchant(2).unwrap();
    let ctx = za::Context::new(b"c18-start");
    // baseline
    let mut base = SimRng::new(seed, label);
    let r0: za::customer::Ready = bincode::deserialize(&image).unwrap_or_else(|_| crate::harness_error("ready image"));
    let _ = r0.start(&mut base, amt, &ctx, &m.ccfg);
    let ndraws = base.draws.len();
    let mut rng = match at {
        Some(a) if rel.is_empty() => faulty_rng(seed, label, a, width),
        Some(a) => {
            let rt = atoms::trace(&ready);
            let old_nonce = refc::sc(rt.get("state.nonce"));
            let old_lock = refc::sc(rt.get("state.revocation_pair.lock"));
            let v = match rel {
                "tag-minus-nonce" => refc::close_tag() - old_nonce,
                "tag-plus-nonce" => refc::close_tag() + old_nonce,
                "tag-minus-lock" => refc::close_tag() - old_lock,
                _ => crate::harness_error("C18: unknown relation"),
            };
            let mut wide = refc::scb(&v).to_vec();
            wide.extend_from_slice(&[0u8; 32]);
            let mut f = BTreeMap::new();
            for i in a..a + width {
                f.insert(i, EntropyFault::Bytes(wide.clone()));
            }
            o.bump("fault.entropy.state-related-draw");
            SimRng::with_faults(seed, label, f)
        }
        None => SimRng::new(seed, label),
    };
    let (started, sm) = match ready.start(&mut rng, amt, &ctx, &m.ccfg) {
        Ok(x) => x,
        Err(_) => crate::harness_error("C18: an admissible payment could not be started"),
    };
    o.events += 1;
    o.add("fault.entropy.close-tag-draw", rng.faults_fired as u64);
    if rng.draws.len() > ndraws {
        o.bump("probe.nonce_retry_taken");
    }
    let img = atoms::trace(&started);
    let by_role = img.get("new_state.nonce").to_vec();
    nonce_check(o, "Ready::start", &by_role, format!("close tag injected at draw {:?} (width {}) of Ready::start: the new state's nonce is the close tag", at, width));
    if bincode::deserialize::<za::customer::Started>(&img.bytes).is_err() {
        o.violate("stored-stage-rejected", "customer::started", format!("stage produced under an entropy fault at draw {:?} does not decode", at));
    }
    if drive {
        // complete the payment and start the next one: the new nonce is then shown
        let mut r = SimRng::new(seed, "c18/start/merchant");
        let (unrev, cs) = match m.cfg.allow_payment(&mut r, amt, &sm.nonce, sm.pay_proof, &ctx) {
            Some(x) => x,
            None => {
                o.bump("probe.payment_refused_under_entropy_fault");
                return;
            }
        };
        let (locked, lm) = match started.lock(cs, &m.ccfg) {
            Ok(x) => x,
            Err(_) => return,
        };
        let pt = match unrev.complete_payment(&mut r, &lm.revocation_pair, &lm.revocation_lock_blinding_factor) {
            Ok(p) => p,
            Err(_) => return,
        };
        let ready2 = match locked.unlock(pt, &m.ccfg) {
            Ok(x) => x,
            Err(_) => return,
        };
        o.events += 4;
        match ready2.start(&mut r, za::PaymentAmount::pay_merchant(1).unwrap(), &za::Context::new(b"c18-next"), &m.ccfg) {
            Ok((_s, sm2)) => {
                let shown = atoms::encode(&sm2.nonce);
                if shown != by_role {
                    crate::harness_error("C18: the nonce shown by the next payment is not the `new_state.nonce` atom (role table drift)");
                }
                o.bump("probe.role_control_passed");
                nonce_check(o, "StartMessage.nonce", &shown, format!("close tag injected at draw {:?} of Ready::start: the nonce shown at the next payment is the close tag", at));
            }
            Err(_) => crate::harness_error("C18: next payment could not be started"),
        }
    }
}

fn decode_clause(o: &mut Outcome, seed: u64) {
    // nonce encodings that equal the close tag, or are congruent to it mod q, must not decode
    let tag = refc::scb(&refc::close_tag());
    let mut congruent = refc::bad::scalar_q();
    // LE add: q + CLOSE
    let mut carry = 0u16;
    for i in 0..32 {
        let v = congruent[i] as u16 + tag[i] as u16 + carry;
        congruent[i] = v as u8;
        carry = v >> 8;
    }
    let cands: Vec<(&str, Vec<u8>)> = vec![("close-tag", tag.to_vec()), ("close-tag+q", congruent.to_vec())];
    let h = crate::harvest::cached(seed % 3, 0, MSPEC);
    for (name, b) in &cands {
        o.bump("fault.wire.nonce-is-close-tag");
        o.events += 1;
        if let Ok(n) = bincode::deserialize::<za::Nonce>(b) {
            let back = atoms::encode(&n);
            o.violate("close-tag-nonce-decodes", "Nonce", format!("the byte string {} decodes as a Nonce (re-encodes to the tag: {})", name, back == tag));
        } else {
            o.bump("probe.tag_nonce_refused");
        }
        for s in h.iter().filter(|s| s.ty.starts_with("customer::") && s.ty != "customer::Config" && s.ty != "customer::ClosingMessage") {
            for (i, a) in s.trace.atoms.iter().enumerate() {
                if a.kind == AtomKind::Bytes && a.len == 32 && a.path.rsplit('.').next() == Some("nonce") {
                    let mut t = s.trace.clone();
                    t.set_atom(i, b);
                    o.events += 1;
                    let entry = crate::types::registry().get(&s.ty);
                    if let Ok(re) = (entry.decode)(&t.bytes) {
                        let _ = re;
                        o.violate("close-tag-nonce-decodes", &format!("{}:{}", s.ty, a.path), format!("a stored {} whose {} is {} decodes", s.ty, a.path, name));
                    } else {
                        o.bump("probe.tag_nonce_refused");
                    }
                }
            }
        }
    }
}

fn verified(v: Verification) -> bool {
    matches!(v, Verification::Verified)
}

/// In a real history: the customer's unblinded pay token re-labelled as the closing signature of
/// the closing message that shares its other fields, and the reference relation both ways.
fn relabel(o: &mut Outcome, case: &Value) {
    let plan = plan_of(case);
    let rr = run_plan(&plan, o);
    keep(o, &["faulty-reply-accepted", "panic"]);
    // find, per channel, the last Ready image before a close from Ready
    for (ci, ch) in rr.chans.iter().enumerate() {
        let closing = match &ch.closing {
            Some(t) if ch.close_stage == "ready" => t,
            _ => continue,
        };
        let before = rr.history.iter().rev().find(|e| e.chan == ci && e.kind == "closing-message").and_then(|e| e.image_before.as_ref());
        let img = match before {
            Some((name, t)) if name == "ready" => t,
            _ => continue,
        };
        let m = merchant(&plan.merchants[ch.merchant]);
        let check = |b: &[u8]| -> Option<bool> {
            let cm: za::customer::ClosingMessage = bincode::deserialize(b).ok()?;
            let (sig, st) = cm.into_parts();
            Some(verified(m.cfg.check_close_signature(sig, &st)))
        };
        if check(&closing.bytes) != Some(true) {
            continue;
        }
        o.bump("probe.relabel_control_verified");
        let mut t = closing.clone();
        t.set("close_signature.sigma1", img.get("pay_token.sigma1"));
        t.set("close_signature.sigma2", img.get("pay_token.sigma2"));
        o.bump("fault.retype.pay-token-as-closing-signature");
        o.events += 1;
        if check(&t.bytes) == Some(true) {
            o.violate("pay-token-accepted-as-closing-signature", "merchant::Config::check_close_signature", format!("channel {}: the customer's pay token passes the close check for the close state sharing its other fields", ci));
        }
        // ... and with the state's nonce written into any 32-byte field of the close state the
        // wire format carries (if the close tag travels as data, the pay token IS a signature on
        // the "close state" whose tag is the nonce)
        for ai in 0..closing.atoms.len() {
            let a = &closing.atoms[ai];
            if a.len != 32 || !a.path.starts_with("close_state") {
                continue;
            }
            let mut t2 = t.clone();
            t2.set_atom(ai, img.get("state.nonce"));
            o.bump("fault.retype.pay-token-with-nonce-in-close-state-field");
            o.events += 1;
            if check(&t2.bytes) == Some(true) {
                o.violate("pay-token-accepted-as-closing-signature", "merchant::Config::check_close_signature", format!("channel {}: the pay token passes the close check once the state's nonce is written into `{}` of the closing message", ci, a.path));
            }
        }
        // reference relation both ways, on the messages read from the image
        let id = refc::sc_raw(img.get("state.channel_id"));
        let nonce = refc::sc(img.get("state.nonce"));
        let lock = refc::sc(img.get("state.revocation_pair.lock"));
        let rd = |p: &str| -> Scalar {
            let mut x = [0u8; 8];
            x.copy_from_slice(img.get(p));
            Scalar::from(u64::from_le_bytes(x))
        };
        let (cb, mb) = (rd("state.customer_balance"), rd("state.merchant_balance"));
        let st_msg = [id, nonce, lock, cb, mb];
        let cl_msg = [id, refc::close_tag(), lock, cb, mb];
        let tok = (refc::g1(img.get("pay_token.sigma1")), refc::g1(img.get("pay_token.sigma2")));
        let cls = (refc::g1(img.get("close_state_signature.sigma1")), refc::g1(img.get("close_state_signature.sigma2")));
        if !refc::ps_verify(&m.pk, &st_msg, &tok.0, &tok.1) || !refc::ps_verify(&m.pk, &cl_msg, &cls.0, &cls.1) {
            crate::harness_error("C18: the stored pay token / closing signature do not verify on the stored state (role table drift)");
        }
        o.events += 2;
        if refc::ps_verify(&m.pk, &cl_msg, &tok.0, &tok.1) {
            o.violate("pay-token-valid-on-close-state", "reference-relation", format!("channel {}: the pay token satisfies the signature relation on the close state", ci));
        }
        if refc::ps_verify(&m.pk, &st_msg, &cls.0, &cls.1) {
            o.violate("closing-signature-valid-on-state", "reference-relation", format!("channel {}: the closing signature satisfies the signature relation on the state", ci));
        }
        if nonce == refc::close_tag() {
            o.violate("nonce-equals-close-tag", "customer::ready", format!("channel {}: a state reached in a history has the close tag as nonce", ci));
        }
    }
}

fn channel_id_clause(o: &mut Outcome, seed: u64) {
    use zkchannels_crypto::pointcheval_sanders::PublicKey;
    let m = merchant(MSPEC);
    let mut s = Sched::new(seed, "c18/chanid");
    let mk = |mr: &[u8], cr: &[u8], pk: &PublicKey<5>, ma: &[u8], ca: &[u8]| -> [u8; 32] {
        let mr: za::MerchantRandomness = bincode::deserialize(mr).unwrap_or_else(|_| crate::harness_error("mr"));
        let cr: za::CustomerRandomness = bincode::deserialize(cr).unwrap_or_else(|_| crate::harness_error("cr"));
        za::ChannelId::new(mr, cr, pk, ma, ca).to_bytes()
    };
    let pk = m.cfg.signing_keypair().public_key();
    let (mr, cr) = (s.bytes(32), s.bytes(32));
    // account strings of every length class (short ids, long descriptors)
    let (la, lb) = match seed % 4 {
        0 => (1 + s.usize(24), 1 + s.usize(24)),
        1 => (40 + s.usize(200), 1 + s.usize(24)),
        2 => (1 + s.usize(24), 100 + s.usize(400)),
        _ => (64 + s.usize(64), 64 + s.usize(64)),
    };
    let (ma, ca) = (s.bytes(la), s.bytes(lb));
    let base = mk(&mr, &cr, pk, &ma, &ca);
    o.events += 1;
    for _ in 0..12 {
        if mk(&mr, &cr, pk, &ma, &ca) != base {
            o.violate("channel-id-not-deterministic", "ChannelId::new", "identical inputs give different ids".into());
            break;
        }
    }
    // every id computed for a different input tuple must be different from every other one (not
    // only from the base): a derivation that remembers anything between calls would otherwise hide
    let mut all_ids: std::collections::BTreeMap<[u8; 32], String> = std::collections::BTreeMap::new();
    all_ids.insert(base, "base".to_string());
    let mut differ = |o: &mut Outcome, name: &str, id: [u8; 32]| {
        o.bump("fault.substitution.channel-id-input");
        o.events += 1;
        if id == base {
            o.violate("channel-id-ignores-input", &format!("ChannelId::new/{}", name), format!("changing only {} leaves the channel id unchanged", name));
        } else if let Some(prev) = all_ids.get(&id) {
            if !prev.starts_with(name) {
                o.violate("channel-id-collision", &format!("ChannelId::new/{}", name.split(':').next().unwrap_or(name)), format!("two different input tuples ({} and {}) give the same channel id", prev, name));
            }
        }
        all_ids.entry(id).or_insert_with(|| name.to_string());
    };
    for i in 0..32 {
        let mut x = mr.clone();
        x[i] ^= 1 << s.usize(8);
        differ(o, "merchant-randomness", mk(&x, &cr, pk, &ma, &ca));
        let mut x = cr.clone();
        x[i] ^= 1 << s.usize(8);
        differ(o, "customer-randomness", mk(&mr, &x, pk, &ma, &ca));
    }
    for i in 0..ma.len() {
        let mut x = ma.clone();
        x[i] ^= 1 << s.usize(8);
        differ(o, "merchant-account", mk(&mr, &cr, pk, &x, &ca));
    }
    for i in 0..ca.len() {
        let mut x = ca.clone();
        x[i] ^= 1 << s.usize(8);
        differ(o, "customer-account", mk(&mr, &cr, pk, &ma, &x));
    }
    // an account string and a digest of it are different inputs (a derivation that pre-hashes
    // long inputs aliases them); likewise its truncation to a block size and its zero padding
    {
        use sha3::{Digest, Sha3_256, Sha3_512};
        for (which, acct) in [("merchant-account", &ma), ("customer-account", &ca)] {
            let mut alts: Vec<(&str, Vec<u8>)> = vec![
                ("sha3-256", Sha3_256::digest(acct).to_vec()),
                ("sha3-512", Sha3_512::digest(acct).to_vec()),
            ];
            for cut in [32usize, 64, 128, 136] {
                if acct.len() > cut {
                    alts.push(("truncated", acct[..cut].to_vec()));
                }
            }
            let mut padded = (*acct).clone();
            padded.push(0);
            alts.push(("zero-padded", padded));
            for (how, alt) in alts {
                if &alt == acct {
                    continue;
                }
                let id = if which == "merchant-account" { mk(&mr, &cr, pk, &alt, &ca) } else { mk(&mr, &cr, pk, &ma, &alt) };
                differ(o, &format!("{}:{}", which, how), id);
            }
        }
    }
    // account information is usually text: every single-character change, including a change
    // of letter case only, must change the id
    let text_m = format!("Merchant Account {} / tz1{:x}", seed % 1000, seed);
    let text_c = format!("customer-ACCOUNT-{:X}", seed.rotate_left(17));
    let base_t = mk(&mr, &cr, pk, text_m.as_bytes(), text_c.as_bytes());
    for (which, txt) in [("merchant-account(text)", &text_m), ("customer-account(text)", &text_c)] {
        for i in 0..txt.len() {
            let mut b = txt.as_bytes().to_vec();
            if b[i].is_ascii_alphabetic() {
                b[i] ^= 0x20;
            } else {
                b[i] = b[i].wrapping_add(1);
            }
            let id = if which.starts_with("merchant") { mk(&mr, &cr, pk, &b, text_c.as_bytes()) } else { mk(&mr, &cr, pk, text_m.as_bytes(), &b) };
            o.bump("fault.substitution.channel-id-input");
            o.events += 1;
            if id == base_t {
                o.violate("channel-id-ignores-input", &format!("ChannelId::new/{}", which), format!("changing only character {} of the {} (case / one step) leaves the channel id unchanged", i, which));
            }
        }
    }
    let mut x = ma.clone();
    x.push(7);
    differ(o, "merchant-account", mk(&mr, &cr, pk, &x, &ca));
    let mut x = ca.clone();
    x.push(7);
    differ(o, "customer-account", mk(&mr, &cr, pk, &ma, &x));
    // public key: another key, and keys differing in exactly one element
    differ(o, "public-key", mk(&mr, &cr, merchant("9002").cfg.signing_keypair().public_key(), &ma, &ca));
    let t = atoms::trace(pk);
    for i in 0..t.atoms.len() {
        if t.atoms[i].kind != AtomKind::Bytes {
            continue;
        }
        let mut t2 = t.clone();
        let sub = crate::mutate::substitute(t.atoms[i].len, "other", mix(&[seed, i as u64]), t.atom_bytes(i));
        t2.set_atom(i, &sub);
        if let Ok(pk2) = bincode::deserialize::<PublicKey<5>>(&t2.bytes) {
            let name = format!("public-key:{}", strip_idx(&t.atoms[i].path));
            differ(o, &name, mk(&mr, &cr, &pk2, &ma, &ca));
        }
    }
    // determinism independent of call order: the base inputs give the base id again
    if mk(&mr, &cr, pk, &ma, &ca) != base {
        o.violate("channel-id-not-deterministic", "ChannelId::new", "the same inputs give another id after other ids were derived in between".into());
    }
}

fn strip_idx(p: &str) -> String {
    let mut out = String::new();
    let mut in_br = false;
    for ch in p.chars() {
        match ch {
            '[' => {
                in_br = true;
                out.push('[');
            }
            ']' => {
                in_br = false;
                out.push(']');
            }
            _ if in_br => {}
            c => out.push(c),
        }
    }
    out
}

fn scalar_draws(seed: u64, which: &str) -> Vec<usize> {
    // recorded draw points (64-byte fills) of the operation, from a fault-free execution
    let m = merchant(MSPEC);
    let mut o = Outcome::default();
    let draws = if which == "new" {
        let mut rng = SimRng::new(seed, "c18/requested-new");
        let _ = establish(&mut o, seed, &mut rng, 50, 5);
        rng.draws
    } else {
        let mut healthy = SimRng::new(seed, "c18/start/establish");
        let (ready, _) = establish(&mut o, seed, &mut healthy, 60, 6).unwrap_or_else(|| crate::harness_error("C18: establishment failed"));
        let mut rng = SimRng::new(seed, "c18/ready-start");
        let _ = ready.start(&mut rng, za::PaymentAmount::pay_merchant(2).unwrap(), &za::Context::new(b"c18-start"), &m.ccfg);
        rng.draws
    };
    (0..draws.len()).filter(|&i| draws[i] == DrawKind::Fill(64)).collect()
}

impl Prop for C18 {
    fn id(&self) -> &'static str {
        "C18"
    }
    fn level(&self) -> &'static str {
        "fault_enumeration"
    }
    fn cases(&self, tier: Tier, seed: u64) -> CaseSet {
        let streams: u64 = match tier {
            Tier::Quick => 1,
            Tier::Thorough => 40,
        };
        let mut v = Vec::new();
        for st in 0..streams {
            let es = mix(&[seed, 0xC18, st]);
            let dn = scalar_draws(es, "new");
            v.push(json!({"f": "entropy-new", "seed": es, "at": null, "width": 0, "drive": true}));
            for (k, at) in dn.iter().enumerate() {
                for width in 1..=3usize {
                    v.push(json!({"f": "entropy-new", "seed": es, "at": at, "width": width, "drive": width == 1 && (tier == Tier::Thorough || k < 4)}));
                }
            }
            let ds = scalar_draws(es, "start");
            let first = if tier == Tier::Quick { 8 } else { 24 };
            v.push(json!({"f": "entropy-start", "seed": es, "at": null, "width": 0, "drive": true}));
            for (k, at) in ds.iter().take(first).enumerate() {
                for width in 1..=3usize {
                    v.push(json!({"f": "entropy-start", "seed": es, "at": at, "width": width, "drive": width == 1 && k < 3}));
                }
            }
            for at in ds.iter().take(first) {
                for rel in ["tag-minus-nonce", "tag-plus-nonce", "tag-minus-lock"] {
                    v.push(json!({"f": "entropy-start", "seed": es, "at": at, "width": 1, "drive": false, "rel": rel}));
                }
            }
            v.push(json!({"f": "decode", "seed": es}));
            for k in 0..(if tier == Tier::Quick { 4 } else { 8 }) {
                v.push(json!({"f": "channel-id", "seed": mix(&[es, k])}));
            }
        }
        let nrel = match tier {
            Tier::Quick => 40,
            Tier::Thorough => 4000,
        };
        for i in 0..nrel {
            let mut p = Profile::byzantine();
            p.random_stop = false;
            p.payments = (0, 2);
            p.max_admissible = 2;
            p.channels = (1, 2);
            let mut plan = gen_plan(mix(&[seed, 0xC18B, i as u64]), &p);
            // replies of the wrong type at every reply point that has faults
            for c in plan.channels.iter_mut() {
                for f in c.est_cs_faults.iter_mut().chain(c.est_pt_faults.iter_mut()) {
                    *f = ReplyFault::WrongType;
                }
                for pp in c.payments.iter_mut() {
                    for f in pp.cs_faults.iter_mut().chain(pp.pt_faults.iter_mut()) {
                        *f = ReplyFault::WrongType;
                    }
                    pp.lock_faults.clear();
                }
            }
            let mut c = case_of(&plan, json!({}));
            c["f"] = json!("relabel");
            v.push(c);
        }
        CaseSet { enumerated: v, random: 0, exhaustive: false }
    }
    fn random_case(&self, _tier: Tier, seed: u64, idx: usize) -> Value {
        json!({"f": "channel-id", "seed": mix(&[seed, idx as u64])})
    }
    fn run(&self, case: &Value) -> Outcome {
        let mut o = Outcome::default();
        let seed = case["seed"].as_u64().unwrap_or(0);
        let at = case["at"].as_u64().map(|x| x as usize);
        let width = case["width"].as_u64().unwrap_or(1) as usize;
        let drive = case["drive"].as_bool().unwrap_or(false);
        match case["f"].as_str().unwrap_or("") {
            "entropy-new" => entropy_new(&mut o, seed, at, width, drive),
            "entropy-start" => entropy_start_rel(&mut o, seed, at, width, drive, case["rel"].as_str().unwrap_or("")),
            "decode" => decode_clause(&mut o, seed),
            "channel-id" => channel_id_clause(&mut o, seed),
            "relabel" => {
                relabel(&mut o, case);
                o.nontrivial = true;
                return o;
            }
            _ => crate::harness_error("C18: bad case family"),
        }
        o.bump(&format!("event.c18.{}", case["f"].as_str().unwrap_or("")));
        o.nontrivial = at.is_some() || !case["f"].as_str().unwrap_or("").starts_with("entropy");
        o.shape = mix(&[crate::hash_str(&case.to_string())]);
        o.log_hash = mix(&[o.shape, o.events, o.violations.len() as u64]);
        o
    }
    fn shrink(&self, case: &Value) -> Vec<Value> {
        match case["f"].as_str().unwrap_or("") {
            "relabel" => shrink_world_case(case),
            "entropy-new" | "entropy-start" => {
                let mut v = Vec::new();
                let w = case["width"].as_u64().unwrap_or(1);
                if w > 1 {
                    let mut c = case.clone();
                    c["width"] = json!(w - 1);
                    v.push(c);
                }
                if case["drive"] == true {
                    let mut c = case.clone();
                    c["drive"] = json!(false);
                    v.push(c);
                }
                v
            }
            _ => Vec::new(),
        }
    }
    fn rule(&self) -> String {
        "five case families. entropy-new / entropy-start: a fault-free execution records the 64-byte draw points of Requested::new (all) and Ready::start (first 8, thorough 24); the operation is re-executed with the draw(s) at one point, window width 1-3, returning bytes that reduce to the close tag (for Ready::start also to tag - old nonce, tag + old nonce, tag - old lock); the nonce of the resulting state (read by role from the stage image, and — control — shown by the next payment after driving the real protocol forward) must differ from the tag and the stage must still decode. decode: the tag and tag+q as a Nonce and inside every stored customer stage must not decode. relabel: in seeded histories with wrong-type replies at every faulted reply point, the stored pay token is moved into the closing message sharing its fields (real check_close_signature must fail) and both signatures are checked against the reference relation on the other message. channel-id: every single-input change (each byte of both randomness values and both account strings, length, another key, a key differing in one element) must change the id. Distinct = distinct case; non-trivial = a fault / substitution was injected".into()
    }
    fn assumptions(&self) -> Vec<String> {
        vec![
            "only the nonce must differ from the tag: the same injection at another draw legitimately makes a revocation secret or blinding factor equal to the tag value".into(),
            "roles (`state.nonce`, `pay_token.sigma1`, ...) are located by field path and guarded by controls executed in the same batch".into(),
            "two-input re-splits of the concatenated account strings are not tested: the property speaks of one input changing".into(),
        ]
    }
    fn required_probes(&self, _tier: Tier) -> Vec<&'static str> {
        vec![
            "probe.nonce_retry_taken",
            "fault.entropy.state-related-draw",
            "probe.role_control_passed",
            "probe.nonce_differs_from_tag",
            "probe.tag_nonce_refused",
            "probe.relabel_control_verified",
            "fault.entropy.close-tag-draw",
            "fault.retype.pay-token-as-closing-signature",
            "fault.reply.wrong-type",
            "fault.substitution.channel-id-input",
        ]
    }
}
