//! C12 — challenges bind every first-message element and match for prover and verifier.
//!
//! Tamper-after-challenge fault enumeration: an honest proof travels to its verifier; one
//! non-response atom is altered in flight; the challenge the verifier derives must move. At
//! zkAbacus level the challenge is internal to `initialize` / `allow_payment` and is observed
//! through the challenge-recorder hook; at library level both sides use the public
//! `ChallengeBuilder`.

use crate::atoms::{self, AtomKind, Trace};
use crate::driver::{CaseSet, Outcome, Prop, Tier};
use crate::forge::{self, Agreed};
use crate::harvest;
use crate::mctx::merchant;
use crate::mutate;
use crate::refc;
use crate::rng::{mix, Sched, SimRng};
use bls12_381::{G1Affine, G1Projective, G2Affine, G2Projective, Scalar};
use serde::de::DeserializeOwned;
use serde::Serialize;
use serde_json::{json, Value};
use zkabacus_crypto as za;
use zkchannels_crypto::{
    pedersen::*,
    pointcheval_sanders::*,
    proofs::{ChallengeBuilder, ChallengeInput, *},
    Message,
};

pub struct C12;
const MSPEC: &str = "9001";

fn is_response(path: &str) -> bool {
    path.contains("response_scalar")
}

fn challenge_of<T: ChallengeInput>(x: &T, extra: &[u8]) -> Scalar {
    ChallengeBuilder::new().with(x).with_bytes(extra).finish().to_scalar()
}

/// For one ChallengeInput value: replacing any one atom of its encoding (by another valid
/// element of the same kind) must change the challenge derived from it. `expect_first_move`
/// is the number of atoms that are NOT response scalars (control on the path-based split).
fn tamper_all<T: ChallengeInput + Serialize + DeserializeOwned>(o: &mut Outcome, tyname: &str, v: &T, expect_first_move: Option<usize>, seed: u64) {
    let t = atoms::trace(v);
    let base = challenge_of(v, b"ctx");
    let first_move: Vec<usize> = (0..t.atoms.len()).filter(|&i| !is_response(&t.atoms[i].path) && t.atoms[i].kind == AtomKind::Bytes).collect();
    if let Some(n) = expect_first_move {
        if first_move.len() != n {
            crate::harness_error(&format!("C12: {} has {} non-response atoms, expected {} (field naming drift)", tyname, first_move.len(), n));
        }
    }
    for (k, (&i, subname)) in first_move.iter().flat_map(|i| [(i, "other"), (i, "neg")]).enumerate() {
        let a = &t.atoms[i];
        let mut b = t.bytes.clone();
        let sub = mutate::substitute(a.len, subname, mix(&[seed, k as u64]), &t.bytes[a.off..a.off + a.len]);
        if sub[..] == t.bytes[a.off..a.off + a.len] {
            continue;
        }
        b[a.off..a.off + a.len].copy_from_slice(&sub);
        o.bump("fault.tamper.first-move-atom");
        o.events += 1;
        match bincode::deserialize::<T>(&b) {
            Ok(v2) => {
                let c2 = challenge_of(&v2, b"ctx");
                if c2 == base {
                    o.violate(
                        "challenge-ignores-element",
                        &format!("{}:{}", strip_n(tyname), strip_idx(&a.path)),
                        format!("replacing atom {} of a {} leaves the challenge derived from it unchanged", a.path, tyname),
                    );
                }
            }
            Err(_) => {
                // the altered encoding does not decode (e.g. a validated pair): nothing reaches the hash
                o.bump("probe.tampered_value_refused_by_decoder");
            }
        }
    }
}

/// Swap the bytes of two same-shaped sub-structures (all atoms whose path starts with the prefix).
fn swap_substructures(t: &Trace, pa: &str, pb: &str) -> Option<Vec<u8>> {
    let span = |p: &str| -> Option<(usize, usize)> {
        let idx: Vec<usize> = (0..t.atoms.len()).filter(|&i| t.atoms[i].path.starts_with(p) && (t.atoms[i].path.len() == p.len() || [b'.', b'['].contains(&t.atoms[i].path.as_bytes()[p.len()]))).collect();
        let (f, l) = (*idx.first()?, *idx.last()?);
        Some((t.atoms[f].off, t.atoms[l].off + t.atoms[l].len))
    };
    let (a0, a1) = span(pa)?;
    let (b0, b1) = span(pb)?;
    if a1 - a0 != b1 - b0 {
        return None;
    }
    let mut out = t.bytes.clone();
    out[a0..a1].copy_from_slice(&t.bytes[b0..b1]);
    out[b0..b1].copy_from_slice(&t.bytes[a0..a1]);
    Some(out)
}

fn strip_idx(p: &str) -> String {
    let mut out = String::new();
    let mut in_br = false;
    for ch in p.chars() {
        match ch {
            '[' => {
                in_br = true;
                out.push('[');
            }
            ']' => {
                in_br = false;
                out.push(']');
            }
            _ if in_br => {}
            c => out.push(c),
        }
    }
    out
}
fn strip_n(t: &str) -> String {
    t.chars().filter(|c| !c.is_ascii_digit()).collect()
}

fn lib_n<const N: usize>(o: &mut Outcome, seed: u64) {
    let mut rng = SimRng::new(seed, &format!("c12/lib/{}", N));
    let kp = KeyPair::<N>::new(&mut rng);
    let p1 = PedersenParameters::<G1Projective, N>::new(&mut rng);
    let p2 = PedersenParameters::<G2Projective, N>::new(&mut rng);
    let msg = Message::<N>::random(&mut rng);
    // prover-side vs verifier-side challenge, for each proof type
    macro_rules! both_sides {
        ($builder:expr, $finish:ident, $name:expr, $n_first:expr) => {{
            let b = $builder;
            let cb = ChallengeBuilder::new().with(&b).with_bytes(b"ctx").finish();
            let proof = b.$finish(cb);
            let cp = ChallengeBuilder::new().with(&proof).with_bytes(b"ctx").finish();
            o.events += 1;
            if cb.to_scalar() != cp.to_scalar() {
                o.violate("prover-verifier-challenge-mismatch", $name, format!("challenge from the builder differs from the challenge from the finished {}", $name));
            } else {
                o.bump("probe.builder_proof_challenges_equal");
            }
            tamper_all(o, &format!("{}<{}>", $name, N), &proof, Some($n_first), seed);
        }};
    }
    both_sides!(CommitmentProofBuilder::generate_proof_commitments(&mut rng, msg.clone(), &[None; N], &p1), generate_proof_response, "CommitmentProof<G1>", 2);
    both_sides!(CommitmentProofBuilder::generate_proof_commitments(&mut rng, msg.clone(), &[None; N], &p2), generate_proof_response, "CommitmentProof<G2>", 2);
    let sig = msg.sign(&mut rng, &kp);
    both_sides!(SignatureProofBuilder::generate_proof_commitments(&mut rng, msg.clone(), sig, &[None; N], kp.public_key()), generate_proof_response, "SignatureProof", 4);
    both_sides!(SignatureRequestProofBuilder::generate_proof_commitments(&mut rng, msg.clone(), &[None; N], kp.public_key()), generate_proof_response, "SignatureRequestProof", 2);
    // the prover's entropy fails (one 64-byte draw returns zeros): whatever proof results, the
    // challenge derived from it must still be the one derived from its builder
    {
        let probe = {
            let mut r = SimRng::new(seed, &format!("c12/lib/faulty-prover/{}", N));
            let _ = SignatureProofBuilder::generate_proof_commitments(&mut r, msg.clone(), sig, &[None; N], kp.public_key());
            r.draws
        };
        let idx: Vec<usize> = (0..probe.len()).filter(|&i| probe[i] == crate::rng::DrawKind::Fill(64)).collect();
        for &at in &idx {
            let mut r = SimRng::zero_window(seed, &format!("c12/lib/faulty-prover/{}", N), at, 1);
            let b = SignatureProofBuilder::generate_proof_commitments(&mut r, msg.clone(), sig, &[None; N], kp.public_key());
            let cb = ChallengeBuilder::new().with(&b).with_bytes(b"ctx").finish();
            let proof = b.generate_proof_response(cb);
            let cp = ChallengeBuilder::new().with(&proof).with_bytes(b"ctx").finish();
            o.bump("fault.entropy.prover-zero-draw");
            o.events += 1;
            if cb.to_scalar() != cp.to_scalar() {
                o.violate("prover-verifier-challenge-mismatch", "SignatureProof(faulty prover entropy)", format!("with draw {} of the prover's generator zeroed, the challenge from the builder differs from the challenge from the finished proof (N = {})", at, N));
            }
        }
    }
    // every ChallengeInput the verifier feeds
    tamper_all(o, &format!("PublicKey<{}>", N), kp.public_key(), None, seed);
    tamper_all(o, &format!("PedersenParameters<G1,{}>", N), &p1, None, seed);
    tamper_all(o, &format!("PedersenParameters<G2,{}>", N), &p2, None, seed);
    let bf = zkchannels_crypto::BlindingFactor::new(&mut rng);
    tamper_all(o, "Commitment<G1>", &msg.commit(&p1, bf), None, seed);
    tamper_all(o, "Commitment<G2>", &msg.commit(&p2, bf), None, seed);
    tamper_all(o, "Signature", &sig, None, seed);
    tamper_all(o, "BlindedMessage", &msg.blind(kp.public_key(), bf), None, seed);
    let bs = sig.blind_and_randomize(&mut rng, bf);
    tamper_all(o, "BlindedSignature", &bs, None, seed);
}

fn lib_elements(o: &mut Outcome, seed: u64) {
    let mut s = Sched::new(seed, "c12/elements");
    let a = refc::rand_scalar(&mut s);
    let b = refc::rand_scalar(&mut s);
    o.events += 5;
    if challenge_of(&a, b"") == challenge_of(&b, b"") {
        o.violate("challenge-ignores-element", "Scalar", "two different scalars give the same challenge".into());
    }
    let p = refc::rand_g1(&mut s);
    let q = refc::rand_g1(&mut s);
    if challenge_of(&p, b"") == challenge_of(&q, b"") || challenge_of(&G1Affine::from(p), b"") == challenge_of(&G1Affine::from(q), b"") {
        o.violate("challenge-ignores-element", "G1", "two different G1 elements give the same challenge".into());
    }
    let p = refc::rand_g2(&mut s);
    let q = refc::rand_g2(&mut s);
    if challenge_of(&p, b"") == challenge_of(&q, b"") || challenge_of(&G2Affine::from(p), b"") == challenge_of(&G2Affine::from(q), b"") {
        o.violate("challenge-ignores-element", "G2", "two different G2 elements give the same challenge".into());
    }
    // an element and its inverse (same x-coordinate) must give different challenges
    let p1 = refc::rand_g1(&mut s);
    let p2 = refc::rand_g2(&mut s);
    if challenge_of(&p1, b"") == challenge_of(&(-p1), b"") || challenge_of(&G1Affine::from(p1), b"") == challenge_of(&G1Affine::from(-p1), b"") {
        o.violate("challenge-ignores-element", "G1(sign)", "a G1 element and its inverse give the same challenge".into());
    }
    if challenge_of(&p2, b"") == challenge_of(&(-p2), b"") || challenge_of(&G2Affine::from(p2), b"") == challenge_of(&G2Affine::from(-p2), b"") {
        o.violate("challenge-ignores-element", "G2(sign)", "a G2 element and its inverse give the same challenge".into());
    }
    if challenge_of(&a, b"") == challenge_of(&(-a), b"") {
        o.violate("challenge-ignores-element", "Scalar(sign)", "a scalar and its negation give the same challenge".into());
    }
    // adjacent inputs must not be able to trade bytes across their boundary: (a, b) and a pair
    // whose concatenated *shortest-form* encodings coincide must give different challenges
    for _ in 0..4 {
        let p31 = s.bytes(31);
        let mut q32 = s.bytes(32);
        q32[0] &= 0x3f;
        q32[31] &= 0x3f;
        if q32[0] == 0 {
            q32[0] = 1;
        }
        // big-endian view: a = 00|P, b = Q  vs  a' = P|Q[0], b' = 00|Q[1..]
        let be = |x: &[u8]| -> Option<Scalar> {
            let mut le: Vec<u8> = x.to_vec();
            le.reverse();
            refc::sc_opt(&le)
        };
        let mut a = vec![0u8];
        a.extend_from_slice(&p31);
        let mut a2 = p31.clone();
        a2.push(q32[0]);
        let mut b2 = vec![0u8];
        b2.extend_from_slice(&q32[1..]);
        a2[0] &= 0x3f;
        a[1] &= 0x3f;
        let a2_fixed = {
            let mut x = a[1..].to_vec();
            x.push(q32[0]);
            x
        };
        if let (Some(sa), Some(sb), Some(sa2), Some(sb2)) = (be(&a), be(&q32), be(&a2_fixed), be(&b2)) {
            o.bump("fault.tamper.boundary-shift");
            o.events += 1;
            let c1 = ChallengeBuilder::new().with(&sa).with(&sb).finish().to_scalar();
            let c2 = ChallengeBuilder::new().with(&sa2).with(&sb2).finish().to_scalar();
            if (sa, sb) != (sa2, sb2) && c1 == c2 {
                o.violate("challenge-ignores-element-boundary", "Scalar,Scalar(big-endian shift)", "two adjacent scalars can trade a byte across their boundary without changing the challenge".into());
            }
        }
        // little-endian view: a = P|00, b = Q  vs  a' = P[1..]... (trailing zero of a moved to b)
        let le = |x: &[u8]| -> Option<Scalar> { refc::sc_opt(x) };
        let mut la = p31.clone();
        la.push(0);
        let mut la2 = vec![];
        la2.extend_from_slice(&p31);
        la2.push(q32[0] & 0x3f);
        let mut lb2 = q32[1..].to_vec();
        lb2.push(0);
        if let (Some(sa), Some(sb), Some(sa2), Some(sb2)) = (le(&la), le(&q32), le(&la2), le(&lb2)) {
            o.bump("fault.tamper.boundary-shift");
            o.events += 1;
            let c1 = ChallengeBuilder::new().with(&sa).with(&sb).finish().to_scalar();
            let c2 = ChallengeBuilder::new().with(&sa2).with(&sb2).finish().to_scalar();
            if (sa, sb) != (sa2, sb2) && c1 == c2 {
                o.violate("challenge-ignores-element-boundary", "Scalar,Scalar(little-endian shift)", "two adjacent scalars can trade a byte across their boundary without changing the challenge".into());
            }
        }
    }
    o.bump("fault.tamper.first-move-atom");
    // zkAbacus contexts of every length class: one input byte changed anywhere, or the length
    for len in [0usize, 1, 31, 32, 33, 64, 255, 256, 257, 300, 1000, 4096] {
        let base_in = s.bytes(len);
        let base_ctx = za::Context::new(&base_in).as_bytes();
        let mut positions: Vec<usize> = if len == 0 { vec![] } else { vec![0, len - 1, len / 2, s.usize(len), s.usize(len)] };
        if len > 256 {
            positions.push(256);
            positions.push(256 + s.usize(len - 256));
        }
        for pos in positions {
            let mut x = base_in.clone();
            x[pos] ^= 1 << s.usize(8);
            o.bump("fault.tamper.context-byte");
            o.events += 1;
            if za::Context::new(&x).as_bytes() == base_ctx {
                o.violate("context-ignores-input-byte", "Context::new", format!("changing byte {} of a {}-byte context input leaves the context unchanged", pos, len));
            }
        }
        // a transcript and its own digest (or its own context) are different inputs
        {
            use sha3::{Digest, Sha3_256};
            let d = Sha3_256::digest(&base_in).to_vec();
            o.bump("fault.tamper.context-byte");
            if d != base_in && za::Context::new(&d).as_bytes() == base_ctx {
                o.violate("context-ignores-input-byte", "Context::new", format!("a {}-byte context input and its SHA3-256 digest give the same context", len));
            }
            if base_ctx.to_vec() != base_in && za::Context::new(&base_ctx).as_bytes() == base_ctx {
                o.violate("context-ignores-input-byte", "Context::new", format!("a {}-byte context input and its own context bytes give the same context", len));
            }
        }
        let mut x = base_in.clone();
        x.push(0);
        if za::Context::new(&x).as_bytes() == base_ctx {
            o.violate("context-ignores-input-byte", "Context::new", format!("appending a byte to a {}-byte context input leaves the context unchanged", len));
        }
    }
    // byte strings are hashed as byte strings, not as the numbers they might encode: a 32- or
    // 64-byte input and the same little-endian integer plus a multiple of the scalar modulus are
    // different inputs (a builder that reduces "scalar-sized" inputs before hashing aliases them)
    for len in [32usize, 64] {
        for k in 1..=2u8 {
            let mut x = s.bytes(len);
            x[31] &= 0x0f; // room for + 2q in the low 32 bytes
            let mut y = x.clone();
            let q = refc::bad::scalar_q();
            for _ in 0..k {
                let mut carry = 0u16;
                for i in 0..len {
                    let add = if i < 32 { q[i] as u16 } else { 0 };
                    let v = y[i] as u16 + add + carry;
                    y[i] = v as u8;
                    carry = v >> 8;
                }
            }
            o.bump("fault.tamper.modulus-alias");
            o.events += 1;
            let c1 = ChallengeBuilder::new().with(&a).with_bytes(&x).finish().to_scalar();
            let c2 = ChallengeBuilder::new().with(&a).with_bytes(&y).finish().to_scalar();
            if x != y && c1 == c2 {
                o.violate("challenge-ignores-context-byte", "ChallengeBuilder::with_bytes(+q)", format!("a {}-byte input and the same little-endian integer plus {} times the scalar modulus give the same challenge", len, k));
            }
            if len == 32 {
                let (cx, cy) = (za::Context::new(&x).as_bytes(), za::Context::new(&y).as_bytes());
                if cx == cy {
                    o.violate("context-ignores-input-byte", "Context::new(+q)", "a 32-byte context input and the same integer plus the scalar modulus give the same context".into());
                }
            }
        }
    }
    // the challenge as a hash: over many distinct inputs it is never zero and never repeats (a zero
    // challenge makes every verification equation independent of the statement; a small or biased
    // challenge space lets a prover grind for a convenient one)
    {
        let n = 40_000u64;
        let mut seen: std::collections::HashSet<[u8; 32]> = std::collections::HashSet::with_capacity(n as usize);
        let tag = s.u64();
        let mut zero = 0u64;
        let mut dup = 0u64;
        for i in 0..n {
            let mut inp = tag.to_le_bytes().to_vec();
            inp.extend_from_slice(&i.to_le_bytes());
            let c = ChallengeBuilder::new().with_bytes(&inp).finish().to_scalar();
            if c == Scalar::zero() {
                zero += 1;
            }
            if !seen.insert(c.to_bytes()) {
                dup += 1;
            }
        }
        o.events += n;
        o.add("probe.challenge_samples", n);
        if zero > 0 {
            o.violate("challenge-collision", "ChallengeBuilder::finish(zero)", format!("{} of {} distinct inputs give the ZERO challenge (every proof verifies under it, whatever the statement)", zero, n));
        } else if dup > 0 {
            o.violate("challenge-collision", "ChallengeBuilder::finish", format!("{} of {} distinct inputs repeat an earlier challenge", dup, n));
        }
    }
    // every byte position of a context fed with with_bytes
    let ctx = s.bytes(32);
    let base = ChallengeBuilder::new().with(&a).with_bytes(&ctx).finish().to_scalar();
    for i in 0..ctx.len() {
        let mut c2 = ctx.clone();
        c2[i] ^= 1 << (i % 8);
        o.bump("fault.tamper.context-byte");
        o.events += 1;
        if ChallengeBuilder::new().with(&a).with_bytes(&c2).finish().to_scalar() == base {
            o.violate("challenge-ignores-context-byte", "ChallengeBuilder::with_bytes", format!("flipping a bit of context byte {} leaves the challenge unchanged", i));
        }
    }
    // several byte strings fed to one builder (a session id and a transcript, say): every byte
    // of every one of them reaches the challenge, whichever call fed it, and so does their order
    {
        let parts: Vec<Vec<u8>> = (0..3).map(|k| s.bytes(8 + 13 * k)).collect();
        let run = |ps: &Vec<Vec<u8>>, via_with: bool| -> Scalar {
            let mut b = ChallengeBuilder::new().with(&a);
            for p in ps {
                if via_with {
                    b = b.with_bytes(p);
                } else {
                    b.consume_bytes(p);
                }
            }
            b.finish().to_scalar()
        };
        for via_with in [true, false] {
            let base = run(&parts, via_with);
            for k in 0..parts.len() {
                for pos in [0usize, parts[k].len() - 1, s.usize(parts[k].len())] {
                    let mut ps = parts.clone();
                    ps[k][pos] ^= 1 << s.usize(8);
                    o.bump("fault.tamper.context-byte");
                    o.events += 1;
                    if run(&ps, via_with) == base {
                        o.violate("challenge-ignores-context-byte", &format!("ChallengeBuilder::{}(#{} of several)", if via_with { "with_bytes" } else { "consume_bytes" }, k), format!("byte {} of byte string #{} of three fed to one builder does not reach the challenge", pos, k));
                    }
                }
            }
            let mut swapped = parts.clone();
            swapped.swap(0, 2);
            if run(&swapped, via_with) == base {
                o.violate("challenge-ignores-order", "ChallengeBuilder(byte strings)", "feeding the same byte strings in another order gives the same challenge".into());
            }
        }
    }
    // length extension of the context
    let mut c3 = ctx.clone();
    c3.push(0);
    if ChallengeBuilder::new().with(&a).with_bytes(&c3).finish().to_scalar() == base {
        o.violate("challenge-ignores-context-byte", "ChallengeBuilder::with_bytes", "appending a zero byte to the context leaves the challenge unchanged".into());
    }
}

/// One input of a builder task.
#[derive(Clone)]
enum BIn {
    S(Scalar),
    P1(G1Projective),
    P2(G2Projective),
    B(Vec<u8>),
}

fn feed(b: &mut ChallengeBuilder, x: &BIn) {
    match x {
        BIn::S(v) => b.consume(v),
        BIn::P1(v) => b.consume(v),
        BIn::P2(v) => b.consume(v),
        BIn::B(v) => b.consume_bytes(v),
    }
}

/// Several challenge builders alive at once on one thread, their `consume` steps interleaved by a
/// seeded scheduler; some are abandoned without `finish` (an error path). Every finished challenge
/// must equal the challenge of the same inputs computed alone, start to finish, on a fresh thread.
fn lib_builder_schedule(o: &mut Outcome, seed: u64) {
    let mut s = Sched::new(seed, "c12/builder-schedule");
    let ntasks = 2 + s.usize(3);
    let mut tasks: Vec<(Vec<BIn>, bool)> = Vec::new();
    for _ in 0..ntasks {
        let n = 1 + s.usize(6);
        let mut v = Vec::new();
        for _ in 0..n {
            v.push(match s.usize(4) {
                0 => BIn::S(refc::rand_scalar(&mut s)),
                1 => BIn::P1(refc::rand_g1(&mut s)),
                2 => BIn::P2(refc::rand_g2(&mut s)),
                _ => {
                    let l = s.usize(70);
                    BIn::B(s.bytes(l))
                }
            });
        }
        let abandon = s.chance(1, 4);
        tasks.push((v, abandon));
    }
    if tasks.iter().all(|t| t.1) {
        tasks[0].1 = false;
    }
    // reference: each task alone on a fresh thread
    let refs: Vec<[u8; 32]> = {
        let ts = tasks.clone();
        std::thread::spawn(move || {
            ts.iter()
                .map(|(inp, _)| {
                    let mut b = ChallengeBuilder::new();
                    for x in inp {
                        feed(&mut b, x);
                    }
                    b.finish().to_scalar().to_bytes()
                })
                .collect()
        })
        .join()
        .unwrap_or_else(|_| crate::harness_error("C12 builder-schedule: reference thread panicked"))
    };
    // the interleaved execution
    let mut live: Vec<Option<ChallengeBuilder>> = Vec::new();
    let mut pos: Vec<usize> = vec![0; ntasks];
    let mut started = 0usize;
    let mut done: Vec<Option<[u8; 32]>> = vec![None; ntasks];
    let mut finished = 0usize;
    let mut order = String::new();
    while finished < ntasks {
        // either start the next task or step a live one
        let can_start = started < ntasks;
        let live_ids: Vec<usize> = (0..started).filter(|&i| live[i].is_some()).collect();
        if can_start && (live_ids.is_empty() || s.chance(1, 3)) {
            live.push(Some(ChallengeBuilder::new()));
            started += 1;
            order.push_str(&format!("n{} ", started - 1));
            o.events += 1;
            continue;
        }
        let i = *s.pick(&live_ids);
        let (inp, abandon) = &tasks[i];
        o.events += 1;
        if *abandon && pos[i] >= inp.len() / 2 {
            // error path: the builder is dropped half way
            live[i] = None;
            finished += 1;
            order.push_str(&format!("d{} ", i));
            o.bump("fault.schedule.builder-abandoned");
            continue;
        }
        if pos[i] < inp.len() {
            feed(live[i].as_mut().unwrap(), &inp[pos[i]]);
            pos[i] += 1;
            order.push_str(&format!("c{} ", i));
        } else {
            let b = live[i].take().unwrap();
            done[i] = Some(b.finish().to_scalar().to_bytes());
            finished += 1;
            order.push_str(&format!("f{} ", i));
        }
    }
    o.bump("fault.schedule.builders-interleaved");
    let any_abandoned = tasks.iter().any(|t| t.1);
    for i in 0..ntasks {
        if let Some(c) = done[i] {
            if c != refs[i] {
                let (class, site) = if any_abandoned { ("challenge-depends-on-other-builder", "ChallengeBuilder(interleaved, one abandoned)") } else { ("challenge-depends-on-other-builder", "ChallengeBuilder(interleaved)") };
                o.violate(class, site, format!("builder {} of {} fed the same inputs gives another challenge when other builders are alive on the thread (schedule: {})", i, ntasks, order.trim()));
            }
        }
    }
    // and once more alone on this thread, after the abandoned builders: still the same
    for i in 0..ntasks {
        let mut b = ChallengeBuilder::new();
        for x in &tasks[i].0 {
            feed(&mut b, x);
        }
        if b.finish().to_scalar().to_bytes() != refs[i] {
            o.violate("challenge-depends-on-other-builder", "ChallengeBuilder(after abandoned builder)", format!("a challenge computed after the schedule `{}` differs from the same inputs hashed on a fresh thread", order.trim()));
            break;
        }
    }
    o.nontrivial = true;
}

fn lib_range(o: &mut Outcome, seed: u64) {
    let m = merchant(MSPEC);
    let rp = m.cfg.range_constraint_parameters();
    let mut rng = SimRng::new(seed, "c12/range");
    let value = (mix(&[seed, 12]) >> 1) as i64;
    let b = match RangeConstraintBuilder::generate_constraint_commitments(value, rp, &mut rng) {
        Ok(b) => b,
        Err(_) => crate::harness_error("C12: range builder refused an in-range value"),
    };
    let cb = ChallengeBuilder::new().with(&b).with_bytes(b"ctx").finish();
    let rc = b.generate_constraint_response(cb);
    let cp = ChallengeBuilder::new().with(&rc).with_bytes(b"ctx").finish();
    o.events += 1;
    if cb.to_scalar() != cp.to_scalar() {
        o.violate("prover-verifier-challenge-mismatch", "RangeConstraint", "challenge from the builder differs from the challenge from the finished range constraint".into());
    } else {
        o.bump("probe.builder_proof_challenges_equal");
    }
    tamper_all(o, "RangeConstraint", &rc, Some(36), seed);
    // whole digit proofs swapped (a permutation of same-shaped sub-structures)
    {
        let t = atoms::trace(&rc);
        let base = challenge_of(&rc, b"ctx");
        for (i, j) in [(0usize, 1usize), (3, 8), (2, 7)] {
            if let Some(b) = swap_substructures(&t, &format!("digit_proofs[{}]", i), &format!("digit_proofs[{}]", j)) {
                o.bump("fault.tamper.permutation");
                o.events += 1;
                if b == t.bytes {
                    continue;
                }
                if let Ok(rc2) = bincode::deserialize::<RangeConstraint>(&b) {
                    if challenge_of(&rc2, b"ctx") == base {
                        o.violate("challenge-ignores-order", "RangeConstraint:digit_proofs", format!("swapping digit proofs {} and {} leaves the challenge unchanged", i, j));
                    }
                }
            }
        }
    }
    // range parameters: a share of the 258 atoms per case (all over a batch)
    let t = atoms::trace(rp);
    let base = challenge_of(rp, b"ctx");
    let idxs: Vec<usize> = (0..t.atoms.len()).filter(|&i| t.atoms[i].kind == AtomKind::Bytes).collect();
    let stride = 7;
    let start = (seed % stride as u64) as usize;
    for k in (start..idxs.len()).step_by(stride) {
        let a = &t.atoms[idxs[k]];
        let mut bts = t.bytes.clone();
        let sub = mutate::substitute(a.len, "other", mix(&[seed, k as u64]), &t.bytes[a.off..a.off + a.len]);
        bts[a.off..a.off + a.len].copy_from_slice(&sub);
        o.bump("fault.tamper.first-move-atom");
        o.events += 1;
        if let Ok(rp2) = bincode::deserialize::<RangeConstraintParameters>(&bts) {
            if challenge_of(&rp2, b"ctx") == base {
                o.violate("challenge-ignores-element", &format!("RangeConstraintParameters:{}", strip_idx(&a.path)), format!("replacing atom {} of the range parameters leaves the challenge unchanged", a.path));
            }
        }
    }
}

/// zkAbacus level, establish: the merchant's own challenge (hook) for an honest proof and for the
/// same proof with one non-response atom replaced in flight.
fn abacus_establish(o: &mut Outcome, seed: u64) {
    let m = merchant(MSPEC);
    let mut s = Sched::new(seed, "c12/est");
    let (c0b, m0b) = (10 + s.below(1000), 1000 + s.below(1000));
    let ag = forge::fresh_agreed(m, &mut s, c0b, m0b, "c12");
    let t = forge::est_template(m, &ag, seed);
    let base = forge::present_establish(m, &ag, &t.bytes, "c12/est/base", seed);
    if base.accepted.is_none() {
        crate::harness_error("C12: the honest establish proof is refused (positive control)");
    }
    let c0 = base.challenge.unwrap_or_else(|| crate::harness_error("C12: no challenge recorded"));
    o.events += 1;
    let first: Vec<usize> = (0..t.atoms.len()).filter(|&i| t.atoms[i].kind == AtomKind::Bytes && !is_response(&t.atoms[i].path)).collect();
    if first.len() != 8 {
        crate::harness_error(&format!("C12: establish proof has {} non-response atoms, expected 8", first.len()));
    }
    for (&i, subname) in first.iter().flat_map(|i| [(i, "other"), (i, "neg")]) {
        let a = &t.atoms[i];
        let mut b = t.bytes.clone();
        let sub = mutate::substitute(a.len, subname, mix(&[seed, i as u64]), &t.bytes[a.off..a.off + a.len]);
        if sub[..] == t.bytes[a.off..a.off + a.len] {
            continue;
        }
        b[a.off..a.off + a.len].copy_from_slice(&sub);
        let r = forge::present_establish(m, &ag, &b, "c12/est/tampered", seed);
        o.bump("fault.tamper.first-move-atom");
        o.events += 1;
        match r.challenge {
            Some(c1) => {
                if c1 == c0 {
                    o.violate("merchant-challenge-ignores-field", &format!("EstablishProof:{}", a.path), format!("altering {} of an establish proof in flight leaves the challenge the merchant derives unchanged", a.path));
                }
            }
            None => crate::harness_error("C12: tampered establish proof did not reach the challenge"),
        }
    }
    // whole sub-proofs swapped
    if let Some(b) = swap_substructures(&t, "state_proof", "close_state_proof") {
        let r = forge::present_establish(m, &ag, &b, "c12/est/swapped", seed);
        o.bump("fault.tamper.permutation");
        o.events += 1;
        if b != t.bytes && r.challenge == Some(c0) {
            o.violate("merchant-challenge-ignores-order", "EstablishProof:state_proof<->close_state_proof", "swapping the two sub-proofs of an establish proof leaves the merchant's challenge unchanged".into());
        }
    }
    // two adjacent revealed scalars trading a byte across their boundary
    {
        let (pa, pb) = ("channel_id_commitment_scalar", "close_tag_commitment_scalar");
        for big_endian in [true, false] {
            let p31 = s.bytes(31);
            let mut q = s.bytes(32);
            q[0] &= 0x3f;
            q[31] &= 0x3f;
            let mk = |a: Vec<u8>, b: Vec<u8>| -> Option<(Vec<u8>, Vec<u8>)> {
                let (mut a, mut b) = (a, b);
                if big_endian {
                    a.reverse();
                    b.reverse();
                }
                match (refc::sc_opt(&a), refc::sc_opt(&b)) {
                    (Some(_), Some(_)) => Some((a, b)),
                    _ => None,
                }
            };
            // shortest forms concatenate identically in the chosen endianness
            let (v1, v2) = if big_endian {
                let mut a = vec![0u8];
                a.extend_from_slice(&p31);
                a[1] &= 0x3f;
                let mut a2 = a[1..].to_vec();
                a2.push(q[0]);
                let mut b2 = vec![0u8];
                b2.extend_from_slice(&q[1..]);
                (mk(a, q.clone()), mk(a2, b2))
            } else {
                let mut a = p31.clone();
                a.push(0);
                let mut a2 = p31.clone();
                a2.push(q[0]);
                let mut b2 = q[1..].to_vec();
                b2.push(0);
                (mk(a, q.clone()), mk(a2, b2))
            };
            if let (Some((a, b)), Some((a2, b2))) = (v1, v2) {
                let mut t1 = t.clone();
                t1.set(pa, &a);
                t1.set(pb, &b);
                let mut t2 = t.clone();
                t2.set(pa, &a2);
                t2.set(pb, &b2);
                if t1.bytes == t2.bytes {
                    continue;
                }
                let r1 = forge::present_establish(m, &ag, &t1.bytes, "c12/est/shift1", seed);
                let r2 = forge::present_establish(m, &ag, &t2.bytes, "c12/est/shift2", seed);
                o.bump("fault.tamper.boundary-shift");
                o.events += 2;
                if r1.challenge.is_some() && r1.challenge == r2.challenge {
                    o.violate("merchant-challenge-ignores-element-boundary", "EstablishProof:revealed-scalars", "two adjacent revealed commitment scalars can trade a byte across their boundary without changing the merchant's challenge".into());
                }
            }
        }
    }
    // verifier-side inputs: agreed values and context
    let variants: Vec<(&str, Agreed)> = vec![
        ("customer-balance", Agreed { cid: ag.cid, cust: ag.cust + 1, merch: ag.merch, ctx_bytes: ag.ctx_bytes.clone() }),
        ("merchant-balance", Agreed { cid: ag.cid, cust: ag.cust, merch: ag.merch + 1, ctx_bytes: ag.ctx_bytes.clone() }),
        ("context", Agreed { cid: ag.cid, cust: ag.cust, merch: ag.merch, ctx_bytes: { let mut c = ag.ctx_bytes.clone(); c[0] ^= 1; c } }),
        ("channel-id", { let a2 = forge::fresh_agreed(m, &mut s, ag.cust, ag.merch, "c12b"); Agreed { cid: a2.cid, cust: ag.cust, merch: ag.merch, ctx_bytes: ag.ctx_bytes.clone() } }),
    ];
    for (name, ag2) in variants {
        let r = forge::present_establish(m, &ag2, &t.bytes, "c12/est/pub", seed);
        o.bump("fault.tamper.verifier-input");
        o.events += 1;
        if r.challenge == Some(c0) {
            o.violate("merchant-challenge-ignores-field", &format!("EstablishProof/public:{}", name), format!("changing the agreed {} leaves the merchant's challenge unchanged", name));
        }
    }
    let m2 = merchant("9002");
    let r = forge::present_establish(m2, &ag, &t.bytes, "c12/est/key", seed);
    o.events += 1;
    if r.challenge == Some(c0) {
        o.violate("merchant-challenge-ignores-field", "EstablishProof/public:merchant-key", "another merchant key gives the same challenge".into());
    }
}

fn abacus_pay(o: &mut Outcome, seed: u64, share: usize) {
    let m = merchant(MSPEC);
    // an honest start message from the harvest: (amount, nonce, proof, context)
    let hs = harvest::pay_sample(seed % 4, MSPEC);
    let present = |mm: &'static crate::mctx::MerchantCtx, amount: i64, nonce: &[u8], ctx: &[u8], proof: &[u8]| forge::present_pay(mm, amount, nonce, ctx, proof, seed, "c12/pay");
    let base = present(m, hs.amount, &hs.nonce, &hs.ctx, &hs.proof.bytes);
    if base.accepted.is_none() {
        crate::harness_error("C12: the honest pay proof is refused (positive control)");
    }
    let c0 = base.challenge.unwrap_or_else(|| crate::harness_error("C12: no challenge recorded for pay proof"));
    o.events += 1;
    let t = &hs.proof;
    let first: Vec<usize> = (0..t.atoms.len()).filter(|&i| t.atoms[i].kind == AtomKind::Bytes && !is_response(&t.atoms[i].path)).collect();
    if first.len() != 84 {
        crate::harness_error(&format!("C12: pay proof has {} non-response atoms, expected 84", first.len()));
    }
    let mut sch = Sched::new(seed, "c12/pay/share");
    for (k, &i) in first.iter().enumerate() {
        // the 72 digit-proof atoms are sampled in quick, exhaustive in thorough
        let a = &t.atoms[i];
        if a.path.contains("digit_proofs") && share > 1 && sch.usize(share) != 0 {
            continue;
        }
        let mut b = t.bytes.clone();
        let subname = if sch.chance(1, 2) { "other" } else { "neg" };
        let sub = mutate::substitute(a.len, subname, mix(&[seed, k as u64]), &t.bytes[a.off..a.off + a.len]);
        if sub[..] == t.bytes[a.off..a.off + a.len] {
            continue;
        }
        b[a.off..a.off + a.len].copy_from_slice(&sub);
        let r = present(m, hs.amount, &hs.nonce, &hs.ctx, &b);
        o.bump("fault.tamper.first-move-atom");
        o.events += 1;
        match r.challenge {
            Some(c1) => {
                if c1 == c0 {
                    o.violate("merchant-challenge-ignores-field", &format!("PayProof:{}", strip_idx(&a.path)), format!("altering {} of a pay proof in flight leaves the challenge the merchant derives unchanged", a.path));
                }
            }
            None => crate::harness_error("C12: tampered pay proof did not reach the challenge"),
        }
    }
    for (pa, pb) in [
        ("customer_balance_proof", "merchant_balance_proof"),
        ("customer_balance_proof.digit_proofs[0]", "customer_balance_proof.digit_proofs[1]"),
        ("merchant_balance_proof.digit_proofs[2]", "merchant_balance_proof.digit_proofs[7]"),
        ("state_proof", "close_state_proof"),
    ] {
        if let Some(b) = swap_substructures(t, pa, pb) {
            if b == t.bytes {
                continue;
            }
            let r = present(m, hs.amount, &hs.nonce, &hs.ctx, &b);
            o.bump("fault.tamper.permutation");
            o.events += 1;
            if r.challenge == Some(c0) {
                o.violate("merchant-challenge-ignores-order", &format!("PayProof:{}<->{}", strip_idx(pa), strip_idx(pb)), format!("swapping {} and {} of a pay proof leaves the merchant's challenge unchanged", pa, pb));
            }
        }
    }
    // verifier-side inputs: nonce, context, key, range parameters (amount is not hashed by design:
    // it enters through the response-scalar equations)
    let mut s = Sched::new(seed, "c12/pay/pub");
    let other_nonce = refc::scb(&refc::rand_scalar(&mut s)).to_vec();
    let r = present(m, hs.amount, &other_nonce, &hs.ctx, &t.bytes);
    o.bump("fault.tamper.verifier-input");
    o.events += 1;
    if r.challenge == Some(c0) {
        o.violate("merchant-challenge-ignores-field", "PayProof/public:nonce", "another nonce gives the same challenge".into());
    }
    let mut ctx2 = hs.ctx.clone();
    let pos = s.usize(ctx2.len());
    ctx2[pos] ^= 0x10;
    let r = present(m, hs.amount, &hs.nonce, &ctx2, &t.bytes);
    o.events += 1;
    if r.challenge == Some(c0) {
        o.violate("merchant-challenge-ignores-field", "PayProof/public:context", "a context differing in one input byte gives the same challenge".into());
    }
    for (name, spec) in [("merchant-key", "9002"), ("range-parameters", "9001/range=9002")] {
        let r = present(merchant(spec), hs.amount, &hs.nonce, &hs.ctx, &t.bytes);
        o.bump("fault.tamper.verifier-input");
        o.events += 1;
        if r.challenge == Some(c0) {
            o.violate("merchant-challenge-ignores-field", &format!("PayProof/public:{}", name), format!("other {} give the same challenge", name));
        }
    }
}

impl Prop for C12 {
    fn id(&self) -> &'static str {
        "C12"
    }
    fn level(&self) -> &'static str {
        "fault_enumeration"
    }
    fn cases(&self, tier: Tier, seed: u64) -> CaseSet {
        let reps = match tier {
            Tier::Quick => 3,
            Tier::Thorough => 150,
        };
        let mut v = Vec::new();
        for rep in 0..reps {
            for n in [1usize, 2, 3, 5, 8, 13] {
                v.push(json!({"f": "lib", "n": n, "seed": mix(&[seed, 0xC12, rep as u64, n as u64])}));
            }
            v.push(json!({"f": "elements", "seed": mix(&[seed, 0xC12E, rep as u64])}));
            for k in 0..(if tier == Tier::Quick { 12u64 } else { 40 }) {
                v.push(json!({"f": "builder-schedule", "seed": mix(&[seed, 0xC12D, rep as u64, k])}));
            }
            for k in 0..7u64 {
                v.push(json!({"f": "range", "seed": mix(&[seed, 0xC12A, rep as u64]) / 7 * 7 + k}));
            }
            for k in 0..2u64 {
                v.push(json!({"f": "establish", "seed": mix(&[seed, 0xC12B, rep as u64, k])}));
            }
            v.push(json!({"f": "pay", "seed": mix(&[seed, 0xC12C, rep as u64]), "share": if tier == Tier::Quick { 4 } else { 1 }}));
        }
        CaseSet { enumerated: v, random: 0, exhaustive: false }
    }
    fn random_case(&self, _tier: Tier, seed: u64, idx: usize) -> Value {
        json!({"f": "elements", "seed": mix(&[seed, idx as u64])})
    }
    fn run(&self, case: &Value) -> Outcome {
        let mut o = Outcome::default();
        let seed = case["seed"].as_u64().unwrap_or(0);
        match case["f"].as_str().unwrap_or("") {
            "lib" => match case["n"].as_u64().unwrap_or(0) {
                1 => lib_n::<1>(&mut o, seed),
                2 => lib_n::<2>(&mut o, seed),
                3 => lib_n::<3>(&mut o, seed),
                5 => lib_n::<5>(&mut o, seed),
                8 => lib_n::<8>(&mut o, seed),
                13 => lib_n::<13>(&mut o, seed),
                _ => crate::harness_error("C12: bad N"),
            },
            "elements" => lib_elements(&mut o, seed),
            "builder-schedule" => lib_builder_schedule(&mut o, seed),
            "range" => lib_range(&mut o, seed),
            "establish" => abacus_establish(&mut o, seed),
            "pay" => abacus_pay(&mut o, seed, case["share"].as_u64().unwrap_or(1) as usize),
            _ => crate::harness_error("C12: bad case family"),
        }
        o.bump(&format!("event.c12.{}", case["f"].as_str().unwrap_or("")));
        o.nontrivial = true;
        o.shape = mix(&[crate::hash_str(&case.to_string())]);
        o.log_hash = mix(&[o.shape, o.events, o.violations.len() as u64]);
        o
    }
    fn rule(&self) -> String {
        "one case = one honest proof (commitment / signature / signature-request proof for N in {1,2,3,5,8,13} in G1 and G2; range constraint; establish proof; pay proof) or ChallengeInput value (public key, Pedersen parameters, range parameters, commitment, signature, blinded message / signature, scalar, group elements, context bytes) travelling to its verifier, with EVERY non-response atom of its wire form (enumerated by the atom tracer; counts 2/4/2/36/8/84 asserted) replaced in turn by another valid element after the prover fixed the challenge; the verifier-side challenge (public ChallengeBuilder at library level, challenge-recorder hook inside initialize / allow_payment at zkAbacus level) must differ from the untampered one. Also each verifier-side input (key, agreed values, nonce, context byte, range parameters) replaced; same-shaped sub-structures swapped wholesale (digit proofs, the two range constraints, the state / close-state sub-proofs); and adjacent scalars trading a byte across their boundary (both endiannesses); 32/64-byte inputs plus multiples of the scalar modulus; 40000 distinct inputs per case whose challenges must be non-zero and pairwise distinct; builder-schedule cases: 2-4 challenge builders alive on one thread, their consume steps interleaved by the seeded scheduler, a quarter of them abandoned half way, every finished challenge compared with the same inputs hashed alone on a fresh thread. Distinct = distinct case; every case injects faults".into()
    }
    fn assumptions(&self) -> Vec<String> {
        vec![
            "response scalars are told from first-move elements by field path (contains `response_scalar`); the expected count of first-move atoms per proof type is asserted, so a renamed field is a harness error, not a pass".into(),
            "altering a response scalar is not required to move the challenge".into(),
            "the payment amount is bound through the response-scalar equations, not the hash (covered by C06)".into(),
        ]
    }
    fn required_probes(&self, _tier: Tier) -> Vec<&'static str> {
        vec!["fault.tamper.first-move-atom", "fault.tamper.context-byte", "fault.tamper.verifier-input", "fault.tamper.permutation", "fault.tamper.boundary-shift", "fault.entropy.prover-zero-draw", "probe.builder_proof_challenges_equal", "fault.schedule.builders-interleaved", "fault.schedule.builder-abandoned", "fault.tamper.modulus-alias", "probe.challenge_samples"]
    }
}
