//! Properties decided on the zkAbacus world (layer A): C03, C04, C05, C14, C20 and the
//! wire-on / wire-off differential of C15.

use crate::atoms::{AtomKind, Trace};
use crate::driver::{CaseSet, Outcome, Prop, Tier};
use crate::mctx::merchant;
use crate::plangen::{gen_plan, shrink_plan, Profile};
use crate::refc;
use crate::rng::{mix, Sched};
use crate::world::*;
use bls12_381::Scalar;
use serde_json::{json, Value};
use std::collections::BTreeSet;

pub fn plan_of(case: &Value) -> Plan {
    match serde_json::from_value::<Plan>(case["plan"].clone()) {
        Ok(p) => p,
        Err(e) => crate::harness_error(&format!("case does not contain a valid plan: {}", e)),
    }
}

pub fn case_of(plan: &Plan, extra: Value) -> Value {
    let mut v = json!({"plan": serde_json::to_value(plan).unwrap()});
    if let Some(m) = extra.as_object() {
        for (k, x) in m {
            v[k] = x.clone();
        }
    }
    v
}

pub fn run_plan(plan: &Plan, o: &mut Outcome) -> RunResult {
    World::new(plan, o).run()
}

/// Keep only violation classes that belong to the property being decided.
pub fn keep(o: &mut Outcome, allow: &[&str]) {
    let before = o.violations.len();
    o.violations.retain(|v| allow.contains(&v.class.as_str()));
    let dropped = before - o.violations.len();
    if dropped > 0 {
        o.add("other_property_violation_classes_seen", dropped as u64);
    }
}

fn plan_has_fault(p: &Plan) -> bool {
    p.channels.iter().any(|c| {
        !c.est_cs_faults.is_empty()
            || !c.est_pt_faults.is_empty()
            || c.payments.iter().any(|x| !x.cs_faults.is_empty() || !x.pt_faults.is_empty() || !x.lock_faults.is_empty())
    })
}

pub fn shrink_world_case(case: &Value) -> Vec<Value> {
    let p = plan_of(case);
    shrink_plan(&p)
        .into_iter()
        .map(|q| {
            let mut c = case.clone();
            c["plan"] = serde_json::to_value(&q).unwrap();
            c
        })
        .collect()
}

// ------------------------------------------------------------------ C03

pub struct C03;
const C03_CLASSES: [&str; 14] = [
    "honest-establish-refused",
    "closing-signature-not-on-ledger-state",
    "faulty-reply-accepted",
    "refused-reply-changed-state",
    "honest-reply-refused",
    "closing-message-wrong-balances",
    "closing-message-wrong-channel-id",
    "closing-message-on-revoked-state",
    "closing-message-refused-by-merchant",
    "lock-message-pair-not-hash-pair",
    "channel-id-changed",
    "balance-differs-from-ledger",
    "panic",
    "revocation-lock-not-fresh",
];

fn c03_enumerated(seed: u64) -> Vec<Value> {
    // every fault kind at every reply point at least once, every stop stage at least once
    let mut v = Vec::new();
    let kinds = vec![
        ReplyFault::Garbage,
        ReplyFault::Shift { slot: 0, delta: 1 },
        ReplyFault::Shift { slot: 1, delta: 1 },
        ReplyFault::Shift { slot: 2, delta: 1 },
        ReplyFault::Shift { slot: 3, delta: 1000 },
        ReplyFault::Shift { slot: 4, delta: -1 },
        ReplyFault::AltTag { variant: 0 },
        ReplyFault::AltTag { variant: 1 },
        ReplyFault::AltTag { variant: 2 },
        ReplyFault::AltTag { variant: 3 },
        ReplyFault::AltTag { variant: 4 },
        ReplyFault::AltTag { variant: 5 },
        ReplyFault::AltTag { variant: 6 },
        ReplyFault::AltTag { variant: 7 },
        ReplyFault::AltTag { variant: 8 },
        ReplyFault::AltTag { variant: 9 },
        ReplyFault::WrongType,
        ReplyFault::OtherKey,
        ReplyFault::Replay { pick: 0 },
        ReplyFault::Replay { pick: 1 },
        ReplyFault::IdentityBytes,
        ReplyFault::IdentityValue,
    ];
    let stops = [(0usize, "inactive"), (0, "ready"), (0, "started"), (0, "locked"), (1, "ready"), (1, "started"), (1, "locked"), (2, "ready")];
    for (i, f) in kinds.iter().enumerate() {
        for point in 0..4 {
            let stop = stops[(i + point) % stops.len()];
            let mut pay = PayPlan { amount: 7, cs_faults: vec![], lock_faults: vec![], pt_faults: vec![] };
            let mut c = ChanPlan {
                merchant: 0,
                cust_bal: 100,
                merch_bal: 20,
                est_cs_faults: vec![],
                est_pt_faults: vec![],
                payments: vec![],
                stop_at: stop.0,
                stop_stage: stop.1.to_string(),
            };
            match point {
                0 => c.est_cs_faults = vec![f.clone()],
                1 => c.est_pt_faults = vec![f.clone(), f.clone()],
                2 => pay.cs_faults = vec![f.clone()],
                _ => pay.pt_faults = vec![f.clone(), f.clone(), f.clone()],
            }
            c.payments = vec![pay.clone(), PayPlan { amount: -3, cs_faults: pay.cs_faults.clone(), lock_faults: vec![], pt_faults: pay.pt_faults.clone() }];
            // a second channel gives replay faults something to replay
            let other = ChanPlan {
                merchant: 1,
                cust_bal: 50,
                merch_bal: 5,
                est_cs_faults: vec![],
                est_pt_faults: vec![],
                payments: vec![PayPlan { amount: 1, cs_faults: vec![], lock_faults: vec![], pt_faults: vec![] }],
                stop_at: 1,
                stop_stage: "ready".into(),
            };
            let plan = Plan {
                seed: mix(&[seed, 0xC03, i as u64, point as u64]),
                merchants: vec!["9001".into(), "9002".into()],
                channels: vec![other, c],
                order: vec![0, 0, 0, 0, 0, 0, 0, 0, 1, 0, 1, 1],
                wire: (i + point) % 2 == 0,
                crash: "none".into(),
                crash_steps: vec![],
                entropy: vec![],
            };
            v.push(case_of(&plan, json!({})));
        }
    }
    v
}

/// Several merchants served one after the other by the same thread, each configuration living in
/// the same variable (stack slot) or in a freshly allocated box that is dropped before the next
/// one is built: every honest channel of every merchant must still close.
fn c03_merchant_rotation(o: &mut Outcome, seed: u64) {
    use crate::rng::SimRng;
    use zkabacus_crypto as za;
    let specs = ["9001", "9002", "9003", "9001"];
    for boxed in [false, true] {
        for (k, spec) in specs.iter().enumerate() {
            let src = merchant(spec);
            let build = || -> za::merchant::Config {
                let kp = bincode::deserialize(&src.kp_bytes).unwrap_or_else(|_| crate::harness_error("key pair bytes"));
                let rev = bincode::deserialize(&src.rev_bytes).unwrap_or_else(|_| crate::harness_error("rev bytes"));
                let range = bincode::deserialize(&src.range_bytes).unwrap_or_else(|_| crate::harness_error("range bytes"));
                za::merchant::Config::from_parts(kp, rev, range)
            };
            let on_stack;
            let on_heap;
            let cfg: &za::merchant::Config = if boxed {
                on_heap = Box::new(build());
                &on_heap
            } else {
                on_stack = build();
                &on_stack
            };
            let (pk, rev, range) = cfg.extract_customer_config_parts();
            let ccfg = za::customer::Config::from_parts(pk, rev, range);
            let mut rng = SimRng::new(seed, &format!("c03/rotation/{}/{}", boxed, k));
            for stage in ["inactive", "ready"] {
                let cid = za::ChannelId::new(za::MerchantRandomness::new(&mut rng), za::CustomerRandomness::new(&mut rng), cfg.signing_keypair().public_key(), b"m", b"c");
                let ctx = za::Context::new(b"c03-rotation");
                let (cb, mb) = (za::CustomerBalance::try_new(30 + k as u64).unwrap(), za::MerchantBalance::try_new(3).unwrap());
                let (req, proof) = za::customer::Requested::new(&mut rng, &ccfg, cid, mb, cb, &ctx);
                let (cs, vbs) = match cfg.initialize(&mut rng, &cid, cb, mb, proof, &ctx) {
                    Some(x) => x,
                    None => {
                        o.violate("honest-establish-refused", "merchant::Config::initialize", format!("merchant #{} ({}) of a sequence served by one thread", k, spec));
                        continue;
                    }
                };
                let inactive = match req.complete(cs, &ccfg) {
                    Ok(i) => i,
                    Err(_) => {
                        o.violate("honest-reply-refused", "customer::requested", format!("merchant #{} ({}) of a sequence served by one thread", k, spec));
                        continue;
                    }
                };
                let cm = if stage == "inactive" {
                    inactive.close(&mut rng)
                } else {
                    match inactive.activate(cfg.activate(&mut rng, vbs), &ccfg) {
                        Ok(r) => r.close(&mut rng),
                        Err(_) => {
                            o.violate("honest-reply-refused", "customer::inactive", format!("merchant #{} ({})", k, spec));
                            continue;
                        }
                    }
                };
                o.events += 4;
                o.bump("probe.rotation_close_checked");
                let (sig, st) = cm.into_parts();
                if !matches!(cfg.check_close_signature(sig, &st), zkabacus_crypto::Verification::Verified) {
                    o.violate(
                        "closing-message-refused-by-merchant",
                        &format!("customer::{}::close", stage),
                        format!("merchant #{} ({}, configuration {}) of a sequence served by one thread refuses an honest closing message", k, spec, if boxed { "boxed, previous one dropped" } else { "in the same variable" }),
                    );
                }
            }
        }
    }
    o.nontrivial = true;
    o.shape = mix(&[0xC03B, seed]);
    o.log_hash = mix(&[o.shape, o.violations.len() as u64]);
}

impl Prop for C03 {
    fn id(&self) -> &'static str {
        "C03"
    }
    fn level(&self) -> &'static str {
        "exploration"
    }
    fn cases(&self, tier: Tier, seed: u64) -> CaseSet {
        let mut en = c03_enumerated(seed);
        for k in 0..(if tier == Tier::Quick { 2u64 } else { 40 }) {
            en.push(json!({"f": "merchant-rotation", "seed": mix(&[seed, 0xC03B, k])}));
        }
        CaseSet {
            enumerated: en,
            random: match tier {
                Tier::Quick => 450,
                Tier::Thorough => 60_000,
            },
            exhaustive: false,
        }
    }
    fn random_case(&self, tier: Tier, seed: u64, idx: usize) -> Value {
        let mut p = Profile::byzantine();
        if tier == Tier::Thorough {
            p.payments = (0, 8);
            p.max_admissible = 4;
        }
        case_of(&gen_plan(mix(&[seed, 0xC03A, idx as u64]), &p), json!({}))
    }
    fn run(&self, case: &Value) -> Outcome {
        let mut o = Outcome::default();
        if case["f"] == "merchant-rotation" {
            c03_merchant_rotation(&mut o, case["seed"].as_u64().unwrap_or(0));
            return o;
        }
        let plan = plan_of(case);
        let _ = run_plan(&plan, &mut o);
        keep(&mut o, &C03_CLASSES);
        o.nontrivial = plan_has_fault(&plan) && o.stats.keys().any(|k| k.starts_with("fault.reply."));
        o
    }
    fn shrink(&self, case: &Value) -> Vec<Value> {
        if case["f"] == "merchant-rotation" {
            return Vec::new();
        }
        shrink_world_case(case)
    }
    fn rule(&self) -> String {
        "(merchant-rotation cases: four merchant configurations served one after the other by one thread, each in the same variable / in a box dropped before the next, every honest channel must close.) one case = one plan: 1-3 channels over 1-2 merchants, 0-4 (thorough 0-8) payments each with amounts of either sign / zero / boundary values, per reply point a geometric number (mean ~0.8, max 4) of faulty replies before the honest one drawn from {garbage, signature on a commitment shifted in slot 0..4, reply of the other type, other merchant's key, replay of an earlier recorded reply, identity as bytes, identity as value via zero merchant entropy}, a drawn stop point (inactive / ready / started / locked at any payment) ending in a real close(), a drawn interleaving of channels, wire on or off. Enumerated part: every fault kind at every reply point. Distinct = distinct executed event-kind/outcome sequence; non-trivial = at least one faulty reply was delivered".into()
    }
    fn assumptions(&self) -> Vec<String> {
        vec![
            "the Byzantine merchant signs with the real secret key read from the key pair's encoding (RefCrypto blind signature)".into(),
            "the commitment a reply must sign is located in the customer's proof by field path; guarded by the honest run completing".into(),
            "replies the decoder refuses never reach the customer and are counted, not judged".into(),
        ]
    }
    fn required_probes(&self, _tier: Tier) -> Vec<&'static str> {
        vec![
            "probe.rotation_close_checked",
            "probe.stop_at_inactive",
            "probe.stop_at_ready",
            "probe.stop_at_started",
            "probe.stop_at_locked",
            "probe.honest_reply_after_0_faults",
            "probe.honest_reply_after_3_faults",
            "probe.payment_completed",
            "probe.replay_had_material",
            "probe.identity_value_built",
            "fault.reply.garbage",
            "fault.reply.shifted-commitment",
            "fault.reply.wrong-type",
            "fault.reply.other-key",
            "fault.reply.replay",
            "fault.reply.identity-bytes",
            "fault.reply.identity-value",
        ]
    }
}

// ------------------------------------------------------------------ C04

pub struct C04;
pub const C04_CLASSES: [&str; 20] = [
    "balance-constructor-wrong",
    "closing-signature-not-on-ledger-state",
    "honest-establish-refused",
    "honest-payment-refused",
    "honest-reply-refused",
    "right-revocation-refused",
    "balance-differs-from-ledger",
    "balance-sum-not-conserved",
    "channel-id-changed",
    "inadmissible-payment-started",
    "admissible-payment-refused",
    "wrong-error-variant",
    "refused-start-changed-state",
    "closing-message-wrong-balances",
    "closing-message-wrong-channel-id",
    "closing-message-refused-by-merchant",
    "honest-message-rejected-by-decoder",
    "panic",
    "amount-constructor-wrong",
    "closing-message-on-revoked-state",
];

fn c04_enumerated(seed: u64) -> Vec<Value> {
    // boundary walks: reach 0 and 2^63-1 through payments, from both sides
    let m = i64::MAX;
    let walks: Vec<(u64, u64, Vec<i64>)> = vec![
        (0, 0, vec![0, 1, -1]),
        (m as u64, 0, vec![m, -m, 1]),
        (0, m as u64, vec![-m, m, -1]),
        (1, 1, vec![1, -2, 2, 0]),
        (m as u64, m as u64, vec![1, -1, 0]),
        (127, 128, vec![127, -255, 128]),
        ((1 << 62), (1 << 62), vec![(1 << 62), -(1 << 62) - 1, -(1 << 62)]),
        (16383, 16384, vec![16383, -16384 * 2 + 1]),
        ((1u64 << 63) - 2, 1, vec![-1, 1, 2]),
    ];
    let mut v = Vec::new();
    for (i, (c, mb, amts)) in walks.iter().enumerate() {
        let plan = Plan {
            seed: mix(&[seed, 0xC04, i as u64]),
            merchants: vec!["9001".into()],
            channels: vec![ChanPlan {
                merchant: 0,
                cust_bal: *c,
                merch_bal: *mb,
                est_cs_faults: vec![],
                est_pt_faults: vec![],
                payments: amts.iter().map(|a| PayPlan { amount: *a, cs_faults: vec![], lock_faults: vec![], pt_faults: vec![] }).collect(),
                stop_at: amts.len(),
                stop_stage: "ready".into(),
            }],
            order: vec![0],
            wire: true,
            crash: "none".into(),
            crash_steps: vec![],
            entropy: vec![],
        };
        v.push(case_of(&plan, json!({})));
    }
    v
}

/// Honest runs must also complete when the customer's entropy source returns a zero block at
/// any single draw — except where that makes the customer's own message degenerate (a zero
/// re-randomiser turns a shown signature into the identity, which the merchant rightly refuses).
fn c04_entropy_sweep(seed: u64, tier: Tier) -> Vec<Value> {
    let mut v = Vec::new();
    let n_start = if tier == Tier::Quick { 96 } else { 96 };
    for (op, n) in [("new", 12usize), ("start", n_start)] {
        for at in 0..n {
            let plan = Plan {
                seed: mix(&[seed, 0xC04E, at as u64, crate::hash_str(op)]),
                merchants: vec!["9001".into()],
                channels: vec![ChanPlan { merchant: 0, cust_bal: 75, merch_bal: 5, est_cs_faults: vec![], est_pt_faults: vec![], payments: vec![PayPlan { amount: if at % 2 == 0 { 4 } else { -2 }, cs_faults: vec![], lock_faults: vec![], pt_faults: vec![] }], stop_at: 1, stop_stage: "ready".into() }],
                order: vec![0],
                wire: true,
                crash: "none".into(),
                crash_steps: vec![],
                entropy: vec![EntropyPlan { chan: 0, pay: if op == "new" { -1 } else { 0 }, op: op.into(), at, width: 1, kind: "zeros".into() }],
            };
            v.push(case_of(&plan, json!({})));
        }
    }
    v
}

impl Prop for C04 {
    fn id(&self) -> &'static str {
        "C04"
    }
    fn level(&self) -> &'static str {
        "exploration"
    }
    fn cases(&self, tier: Tier, seed: u64) -> CaseSet {
        let mut en = c04_enumerated(seed);
        en.extend(c04_entropy_sweep(seed, tier));
        CaseSet {
            enumerated: en,
            random: match tier {
                Tier::Quick => 260,
                Tier::Thorough => 30_000,
            },
            exhaustive: false,
        }
    }
    fn random_case(&self, tier: Tier, seed: u64, idx: usize) -> Value {
        let mut p = Profile::honest(idx % 4 != 3);
        p.random_stop = idx % 5 == 0;
        if tier == Tier::Thorough {
            p.payments = (0, 24);
            p.max_admissible = 8;
            p.channels = (1, 3);
        }
        case_of(&gen_plan(mix(&[seed, 0xC04A, idx as u64]), &p), json!({}))
    }
    fn run(&self, case: &Value) -> Outcome {
        let mut o = Outcome::default();
        let plan = plan_of(case);
        if plan_has_fault(&plan) {
            crate::harness_error("C04 runs fault-free plans only");
        }
        let rr = run_plan(&plan, &mut o);
        if !plan.entropy.is_empty() {
            // a refusal is legitimate iff the customer's own proof carries a degenerate (identity)
            // element because of the faulty draw
            let g1 = refc::bad::g1_identity();
            let g2 = refc::bad::g2_identity();
            let degenerate = rr.history.iter().any(|e| {
                e.dir == Dir::C2M
                    && e.trace.as_ref().map(|t| t.atoms.iter().any(|a| a.kind == AtomKind::Bytes && ((a.len == 48 && t.bytes[a.off..a.off + 48] == g1[..]) || (a.len == 96 && t.bytes[a.off..a.off + 96] == g2[..])))).unwrap_or(false)
            });
            if degenerate {
                o.bump("probe.entropy_fault_made_message_degenerate");
                o.violations.retain(|v| !["honest-payment-refused", "honest-establish-refused", "honest-reply-refused", "honest-message-rejected-by-decoder", "closing-message-refused-by-merchant", "closing-signature-not-on-ledger-state"].contains(&v.class.as_str()));
            } else {
                o.bump("probe.entropy_fault_run_completed");
            }
        }
        keep(&mut o, &C04_CLASSES);
        o.nontrivial = o.stats.get("probe.payment_completed").cloned().unwrap_or(0) > 0 || o.stats.get("probe.start_refused").cloned().unwrap_or(0) > 0;
        o
    }
    fn shrink(&self, case: &Value) -> Vec<Value> {
        shrink_world_case(case)
    }
    fn rule(&self) -> String {
        "(entropy-sweep cases: no network fault, but the customer's generator returns a zero block at one draw of Requested::new / Ready::start; the run must still complete unless that draw makes the customer's own message carry an identity element.) one case = one fault-free plan: honest customer and merchant, every hop and stored stage through the real codecs, initial balances from the lattice {0,1,2,2^31,2^32,2^62,2^63-2,2^63-1}^2 or random, amounts drawn relative to the current ideal balances from {0,+-1,+-balance,+-(balance+1),+-(2^63-1), fill-to-max, random}, 0-6 (thorough 0-24) payments, 1-2 (3) interleaved channels; compared event by event with an i128 ledger. Enumerated part: boundary walks that reach 0 and 2^63-1 through payments. Distinct = distinct executed event/outcome sequence; non-trivial = at least one payment completed or one inadmissible payment was refused".into()
    }
    fn assumptions(&self) -> Vec<String> {
        vec!["the i128 ledger (ten lines of integer arithmetic) is the reference".into(), "bounded liveness is in deliveries: establishment completes in 3, a payment in 4, by construction of the step list; any refusal of an honest step is a violation".into()]
    }
    fn required_probes(&self, _tier: Tier) -> Vec<&'static str> {
        vec!["probe.payment_completed", "probe.start_refused", "probe.zero_amount_started", "probe.negative_amount_started", "probe.boundary_balance_reached", "probe.stop_at_ready", "fault.entropy.customer-zero-draw", "probe.entropy_fault_run_completed"]
    }
}

// ------------------------------------------------------------------ C05

pub struct C05;
const C05_CLASSES: [&str; 7] = [
    "wrong-revocation-accepted",
    "right-revocation-refused",
    "decoded-pair-not-hash-pair",
    "corrupt-revocation-pair-decoded",
    "lock-message-pair-not-hash-pair",
    "honest-reply-refused",
    "panic",
];

impl Prop for C05 {
    fn id(&self) -> &'static str {
        "C05"
    }
    fn level(&self) -> &'static str {
        "exploration"
    }
    fn cases(&self, tier: Tier, seed: u64) -> CaseSet {
        // enumerated: every candidate kind, alone and before the right one
        let mut v = Vec::new();
        let kinds = vec![
            LockFault::NewStatePair,
            LockFault::FreshPair,
            LockFault::ForeignPair { pick: 0 },
            LockFault::WrongBf { mode: 0 },
            LockFault::WrongBf { mode: 1 },
            LockFault::WrongBf { mode: 2 },
            LockFault::Corrupt { field: 0 },
            LockFault::Corrupt { field: 1 },
            LockFault::Corrupt { field: 2 },
            LockFault::CompensatedBf { pick: 0 },
            LockFault::OtherIndex,
        ];
        // a decode of the genuine pair followed by a decode of an altered one (decoders must not
        // remember anything between calls)
        for (i, f2) in [LockFault::Corrupt { field: 2 }, LockFault::Corrupt { field: 0 }, LockFault::Corrupt { field: 1 }].iter().enumerate() {
            let mk = |lf: Vec<LockFault>, amt: i64| PayPlan { amount: amt, cs_faults: vec![], lock_faults: lf, pt_faults: vec![] };
            let plan = Plan {
                seed: mix(&[seed, 0xC05F, i as u64]),
                merchants: vec!["9001".into()],
                channels: vec![ChanPlan { merchant: 0, cust_bal: 60, merch_bal: 6, est_cs_faults: vec![], est_pt_faults: vec![], payments: vec![mk(vec![LockFault::WrongBf { mode: 0 }, f2.clone(), LockFault::WrongBf { mode: 1 }, f2.clone()], 4)], stop_at: 1, stop_stage: "ready".into() }],
                order: vec![0],
                wire: i % 2 == 0,
                crash: "none".into(),
                crash_steps: vec![],
                entropy: vec![],
            };
            v.push(case_of(&plan, json!({})));
        }
        for (i, f) in kinds.iter().enumerate() {
            let mk = |lf: Vec<LockFault>, amt: i64| PayPlan { amount: amt, cs_faults: vec![], lock_faults: lf, pt_faults: vec![] };
            let plan = Plan {
                seed: mix(&[seed, 0xC05, i as u64]),
                merchants: vec!["9001".into()],
                channels: vec![
                    ChanPlan { merchant: 0, cust_bal: 40, merch_bal: 2, est_cs_faults: vec![], est_pt_faults: vec![], payments: vec![mk(vec![], 2)], stop_at: 1, stop_stage: "ready".into() },
                    ChanPlan { merchant: 0, cust_bal: 90, merch_bal: 9, est_cs_faults: vec![], est_pt_faults: vec![], payments: vec![mk(vec![f.clone()], 5), mk(vec![f.clone(), f.clone(), f.clone()], -1)], stop_at: 2, stop_stage: "ready".into() },
                ],
                order: vec![0, 0, 0, 0, 0, 0, 0, 0, 0, 0, 0, 0, 0, 0, 1],
                wire: i % 2 == 0,
                crash: "none".into(),
                crash_steps: vec![],
                entropy: vec![],
            };
            v.push(case_of(&plan, json!({})));
        }
        // a long siege of one pending payment: 300 wrong candidates, then the right one (a counter
        // of failed attempts, a bounded retry budget, a list that grows per refusal)
        {
            let mut lf = Vec::new();
            for i in 0..300u64 {
                lf.push(match i % 4 {
                    0 => LockFault::WrongBf { mode: 0 },
                    1 => LockFault::FreshPair,
                    2 => LockFault::WrongBf { mode: 1 },
                    _ => LockFault::OtherIndex,
                });
            }
            let plan = Plan {
                seed: mix(&[seed, 0xC05D]),
                merchants: vec!["9001".into()],
                channels: vec![ChanPlan { merchant: 0, cust_bal: 80, merch_bal: 8, est_cs_faults: vec![], est_pt_faults: vec![], payments: vec![PayPlan { amount: 5, cs_faults: vec![], lock_faults: lf, pt_faults: vec![] }], stop_at: 1, stop_stage: "ready".into() }],
                order: vec![0],
                wire: false,
                crash: "none".into(),
                crash_steps: vec![],
                entropy: vec![],
            };
            v.push(case_of(&plan, json!({})));
        }
        v.push(json!({"f": "pair-codec", "seed": seed}));
        // entropy sweep: a zero draw at every draw index of the customer's Ready::start (one of them
        // is the blinding factor of the lock commitment); the right revocation must still complete
        let sweep = if tier == Tier::Quick { 1 } else { 3 };
        for at in 0..96usize {
            for w in 0..sweep {
                let plan = Plan {
                    seed: mix(&[seed, 0xC05E, at as u64, w]),
                    merchants: vec!["9001".into()],
                    channels: vec![ChanPlan { merchant: 0, cust_bal: 70, merch_bal: 7, est_cs_faults: vec![], est_pt_faults: vec![], payments: vec![PayPlan { amount: 3, cs_faults: vec![], lock_faults: vec![LockFault::WrongBf { mode: 1 }], pt_faults: vec![] }], stop_at: 1, stop_stage: "ready".into() }],
                    order: vec![0],
                    wire: at % 2 == 0,
                    crash: "none".into(),
                    crash_steps: vec![],
                    entropy: vec![EntropyPlan { chan: 0, pay: 0, op: "start".into(), at, width: 1, kind: "zeros".into() }],
                };
                v.push(case_of(&plan, json!({})));
            }
        }
        for k in 0..(if tier == Tier::Quick { 4u64 } else { 200 }) {
            v.push(json!({"f": "byzantine-customer", "seed": mix(&[seed, 0xC05B, k]), "variant": if k % 2 == 0 { "old-lock-mismatch-linked" } else { "old-lock-mismatch-unlinked" },
                          "cust": 500 + k, "merch": 40 + k, "amount": 5, "history": 0, "mspec": "9001"}));
        }
        CaseSet {
            enumerated: v,
            random: match tier {
                Tier::Quick => 240,
                Tier::Thorough => 30_000,
            },
            exhaustive: false,
        }
    }
    fn random_case(&self, _tier: Tier, seed: u64, idx: usize) -> Value {
        if idx % 12 == 11 {
            return json!({"f": "pair-codec", "seed": mix(&[seed, 0xC05C, idx as u64])});
        }
        let mut p = Profile::byzantine();
        p.reply_fault = (0, 1);
        p.lock_fault = (70, 100);
        p.max_faults = 4;
        p.fault_free_pct = 0;
        p.payments = (1, 3);
        p.channels = (1, 2);
        p.random_stop = false;
        p.merchants = vec!["9001".into()];
        case_of(&gen_plan(mix(&[seed, 0xC05A, idx as u64]), &p), json!({}))
    }
    fn run(&self, case: &Value) -> Outcome {
        let mut o = Outcome::default();
        if case["f"] == "pair-codec" {
            pair_codec(&mut o, case["seed"].as_u64().unwrap_or(0));
            return o;
        }
        if case["f"] == "byzantine-customer" {
            // the last clause against a lying customer: a pay proof whose lock commitment is to a
            // decoy lock (C02's forger); if the merchant accepts it, the payment completes with the
            // decoy pair and the old state is never revoked
            crate::props::c02::run_case(&mut o, case);
            keep(&mut o, &["pay-token-without-revocation-of-old-state", "wrong-revocation-accepted", "lock-commitment-not-to-old-lock"]);
            o.bump("fault.lock.decoy-lock-commitment");
            o.nontrivial = true;
            o.events = o.stats.iter().filter(|(k, _)| k.starts_with("event.")).map(|(_, v)| *v).sum();
            o.shape = mix(&[0xC05B, case["seed"].as_u64().unwrap_or(0)]);
            return o;
        }
        let plan = plan_of(case);
        let _ = run_plan(&plan, &mut o);
        keep(&mut o, &C05_CLASSES);
        o.nontrivial = o.stats.keys().any(|k| k.starts_with("fault.lock."));
        o
    }
    fn shrink(&self, case: &Value) -> Vec<Value> {
        if case["f"] == "pair-codec" || case["f"] == "byzantine-customer" {
            return Vec::new();
        }
        shrink_world_case(case)
    }
    fn rule(&self) -> String {
        "four case families. entropy-sweep: single-payment plans with a zero draw injected at each draw index of the customer's Ready::start (one of them is the blinding factor of the lock commitment): whenever the merchant accepts the pay proof, a wrong blinding factor must be refused and the right pair must complete the payment. byzantine-customer: a lying customer (C02's raw prover) presents a pay proof whose revocation-lock commitment is to a decoy lock; if the merchant accepts, the decoy pair completes the payment and the old state is never revoked. pair-codec: revocation pairs whose SHA3 digest lies in chosen bands (found by a seeded brute-force search over ~10^6 secrets: just above the group order q, just below q, near 2^256, any value >= q) are presented to the decoder as (digest mod q, secret, index) and as (raw digest, secret, index), and their secrets are fed to pair generation through a crafted entropy stream; every pair that decodes or is generated must satisfy lock = SHA3(secret || index) as a canonical scalar, and canonical ones must decode. world: one case = one plan in which every accepted pay proof is followed, before the right (pair, blinding factor), by 0-6 wrong candidates carried to the merchant's pending payment: the new state's pair (read from the customer's stage image), a fresh pair, a pair recorded from another payment / channel, the right pair with a random / off-by-one / foreign blinding factor, and pair encodings with lock, secret or index altered (which the decoder must refuse). Distinct = distinct executed event/outcome sequence; non-trivial = at least one wrong candidate was presented".into()
    }
    fn assumptions(&self) -> Vec<String> {
        vec!["SHA3-256(secret || index) is recomputed by the harness for every pair seen in a lock message or accepted by the decoder".into()]
    }
    fn required_probes(&self, _tier: Tier) -> Vec<&'static str> {
        vec![
            "fault.lock.new-state-pair",
            "fault.lock.fresh-pair",
            "fault.lock.foreign-pair",
            "fault.lock.wrong-blinding-factor",
            "fault.lock.corrupt-pair-encoding",
            "fault.lock.compensated-blinding-factor",
            "fault.lock.same-secret-other-index",
            "probe.foreign_pair_had_material",
            "probe.corrupt_pair_refused_by_decoder",
            "probe.right_revocation_after_3_wrong",
            "probe.payment_completed",
            "probe.band_just_above_q_refused",
            "probe.band_just_below_q_accepted",
            "probe.crafted_generation_checked",
            "probe.embedded_pair_found",
            "probe.long_index_secret_checked",
            "fault.entropy.customer-zero-draw",
        ]
    }
}

/// Secrets (canonical scalars, index 0) whose SHA3-256(secret || 0) falls into a band of interest.
/// band 0: any digest >= q; 1: just above q (same top 16 bits as q); 2: top 16 bits 0xffff;
/// 3: canonical, just below q (same top 16 bits as q).
fn banded_secrets() -> &'static Vec<(u8, [u8; 32], [u8; 32])> {
    static C: std::sync::OnceLock<Vec<(u8, [u8; 32], [u8; 32])>> = std::sync::OnceLock::new();
    C.get_or_init(|| {
        use sha3::{Digest, Sha3_256};
        let q = refc::bad::scalar_q();
        let ge_q = |d: &[u8]| -> bool {
            for i in (0..32).rev() {
                if d[i] != q[i] {
                    return d[i] > q[i];
                }
            }
            true
        };
        let mut out: Vec<(u8, [u8; 32], [u8; 32])> = Vec::new();
        let mut have = [0usize; 4];
        let want = [2usize, 3, 2, 3];
        let mut k: u64 = 1;
        while (0..4).any(|b| have[b] < want[b]) && k < 6_000_000 {
            let secret = Scalar::from(k).to_bytes();
            let d = Sha3_256::new().chain(secret).chain([0u8]).finalize();
            let mut db = [0u8; 32];
            db.copy_from_slice(d.as_ref());
            let top = (db[31], db[30]);
            let band = if top == (q[31], q[30]) {
                if ge_q(&db) {
                    Some(1)
                } else {
                    Some(3)
                }
            } else if top == (0xff, 0xff) {
                Some(2)
            } else if ge_q(&db) && have[0] < want[0] {
                Some(0)
            } else {
                None
            };
            if let Some(b) = band {
                if have[b] < want[b] {
                    have[b] += 1;
                    out.push((b as u8, secret, db));
                }
            }
            k += 1;
        }
        out
    })
}

fn pair_codec(o: &mut Outcome, seed: u64) {
    use crate::rng::{EntropyFault, SimRng};
    let bands = banded_secrets();
    if !(0..4u8).all(|b| bands.iter().any(|x| x.0 == b)) {
        crate::harness_error("C05: the digest-band search did not find a secret for every band");
    }
    for (band, secret, digest) in bands.iter() {
        let reduced = refc::scb(&refc::sc_raw(digest));
        let canonical = refc::sc_opt(digest).is_some();
        // (a) decode (digest mod q | raw digest, secret, 0)
        for (form, lock) in [("reduced", reduced), ("raw", *digest)] {
            let mut b = lock.to_vec();
            b.extend_from_slice(secret);
            b.push(0);
            o.events += 1;
            o.bump("fault.lock.crafted-digest-band");
            match bincode::deserialize::<za_pair::RevocationPair>(&b) {
                Ok(p) => {
                    let s = p.revocation_secret().as_bytes();
                    let ok = refc::rev_lock(&s[..32], s[32]).map(|l| refc::scb(&l) == p.revocation_lock().as_bytes()).unwrap_or(false);
                    if !ok {
                        o.violate(
                            "decoded-pair-not-hash-pair",
                            "RevocationPair",
                            format!("a pair whose digest is in band {} ({} lock form) decodes although its lock is not the canonical-scalar SHA3 hash of its secret", band, form),
                        );
                    } else if *band == 3 {
                        o.bump("probe.band_just_below_q_accepted");
                    }
                }
                Err(_) => {
                    if canonical && form == "raw" {
                        o.violate("valid-pair-refused", "RevocationPair", format!("a pair with a canonical digest just below q (band {}) is refused by the decoder", band));
                    }
                    if *band == 1 {
                        o.bump("probe.band_just_above_q_refused");
                    }
                }
            }
        }
        // (b) generation from a crafted entropy stream that yields exactly this secret
        let mut wide = secret.to_vec();
        wide.extend_from_slice(&[0u8; 32]);
        let mut f = std::collections::BTreeMap::new();
        f.insert(0usize, EntropyFault::Bytes(wide));
        let mut rng = SimRng::with_faults(seed, "c05/crafted-secret", f);
        let pair = zkabacus_crypto::internal::test_new_revocation_pair(&mut rng);
        o.events += 1;
        o.bump("fault.entropy.crafted-revocation-secret");
        let s = pair.revocation_secret().as_bytes();
        if s[..32] != secret[..] {
            crate::harness_error("C05: the crafted entropy stream did not produce the intended secret");
        }
        let ok = refc::rev_lock(&s[..32], s[32]).map(|l| refc::scb(&l) == pair.revocation_lock().as_bytes()).unwrap_or(false);
        if !ok {
            o.violate("generated-pair-not-hash-pair", "RevocationPair::new", format!("pair generation from a secret whose index-0 digest is in band {} returns a lock that is not the canonical-scalar SHA3 hash of (secret, index {})", band, s[32]));
        }
        if bincode::deserialize::<za_pair::RevocationPair>(&crate::atoms::encode(&pair)).is_err() {
            o.violate("generated-pair-rejected-by-decoder", "RevocationPair::new", format!("a generated pair (band {}) does not decode", band));
        }
        o.bump("probe.crafted_generation_checked");
    }
    // (b') secrets whose index search runs long: SHA3(secret || i) is non-canonical for every i
    // below 10 / 16 / 25 / 33 (found by an offline search, `zksim find-long-index`; verified here
    // against the reference hash before use). Generation must walk to that index, the pair must be a
    // hash pair, decode, and be refused with any earlier index.
    for (k, first) in [(419u64, 10u8), (101092, 16), (2232804, 25), (640647005, 33)] {
        let secret = Scalar::from(k).to_bytes();
        if (0..first).any(|i| refc::rev_lock(&secret, i).is_some()) || refc::rev_lock(&secret, first).is_none() {
            crate::harness_error("C05: a long-index secret does not have the recorded first canonical index");
        }
        let mut wide = secret.to_vec();
        wide.extend_from_slice(&[0u8; 32]);
        let mut f = std::collections::BTreeMap::new();
        f.insert(0usize, EntropyFault::Bytes(wide));
        let mut rng = SimRng::with_faults(seed, "c05/long-index-secret", f);
        let pair = zkabacus_crypto::internal::test_new_revocation_pair(&mut rng);
        o.events += 1;
        o.bump("fault.entropy.crafted-revocation-secret");
        let sb = pair.revocation_secret().as_bytes();
        if sb[..32] != secret[..] {
            crate::harness_error("C05: the crafted entropy stream did not produce the intended secret");
        }
        let ok = refc::rev_lock(&sb[..32], sb[32]).map(|l| refc::scb(&l) == pair.revocation_lock().as_bytes()).unwrap_or(false);
        if !ok {
            o.violate("generated-pair-not-hash-pair", "RevocationPair::new", format!("pair generation from a secret whose first canonical digest is at index {} returns index {} and a lock that is not the canonical-scalar SHA3 hash of (secret, index)", first, sb[32]));
        }
        if bincode::deserialize::<za_pair::RevocationPair>(&crate::atoms::encode(&pair)).is_err() {
            o.violate("generated-pair-rejected-by-decoder", "RevocationPair::new", format!("a generated pair (first canonical index {}) does not decode", first));
        }
        // the reference pair through the decoder, and the same secret under earlier indices
        let lock = refc::scb(&refc::rev_lock(&secret, first).unwrap());
        for idx in [first, 0, first - 1] {
            let mut b = lock.to_vec();
            b.extend_from_slice(&secret);
            b.push(idx);
            o.events += 1;
            match bincode::deserialize::<za_pair::RevocationPair>(&b) {
                Ok(_) if idx != first => o.violate("decoded-pair-not-hash-pair", "RevocationPair", format!("the pair (H(secret, {}), secret, {}) decodes", first, idx)),
                Err(_) if idx == first => o.violate("valid-pair-refused", "RevocationPair", format!("a valid pair whose index is {} is refused by the decoder", first)),
                _ => {}
            }
        }
        o.bump("probe.long_index_secret_checked");
    }
    // (c) pairs that enter the program inside something else: every stored customer stage and
    // every message of an honest session that carries a (lock, secret, index) triple is decoded
    // with the secret replaced (banded and random secrets), the index changed, the lock changed;
    // whatever decodes must still be a hash pair
    let samples = crate::harvest::cached(1, 0, "9001");
    let reg = crate::types::registry();
    let mut sch = crate::rng::Sched::new(seed, "c05/embedded-pairs");
    for smp in samples.iter() {
        let locks: Vec<usize> = (0..smp.trace.atoms.len())
            .filter(|&i| {
                let p = &smp.trace.atoms[i].path;
                (p == "lock" || p.ends_with(".lock")) && smp.trace.atoms[i].len == 32
            })
            .collect();
        for li in locks {
            let lp = smp.trace.atoms[li].path.clone();
            let prefix = lp[..lp.len() - "lock".len()].to_string();
            let (si, ii) = match (smp.trace.find(&format!("{}secret.secret", prefix)), smp.trace.find(&format!("{}secret.index", prefix))) {
                (Some(a), Some(b)) => (a, b),
                _ => continue,
            };
            o.bump("probe.embedded_pair_found");
            let mut cands: Vec<(String, crate::atoms::Trace)> = Vec::new();
            for (band, secret, _) in bands.iter() {
                let mut t = smp.trace.clone();
                t.set_atom(si, secret);
                cands.push((format!("secret:=band{}", band), t));
            }
            for k in 0..6 {
                let mut t = smp.trace.clone();
                t.set_atom(si, &sch.bytes(32));
                cands.push((format!("secret:=random{}", k), t));
            }
            for d in [1u8, 2, 255] {
                let mut t = smp.trace.clone();
                let b = [smp.trace.atom_bytes(ii)[0].wrapping_add(d)];
                t.set_atom(ii, &b);
                cands.push((format!("index+={}", d), t));
            }
            {
                let mut t = smp.trace.clone();
                t.set_atom(li, &refc::scb(&refc::rand_scalar(&mut sch)));
                cands.push(("lock:=random".into(), t));
            }
            for (what, t) in cands {
                o.events += 1;
                o.bump("fault.lock.embedded-pair-altered");
                if let Ok(re) = (reg.get(&smp.ty).decode)(&t.bytes) {
                    // the decoded value, re-encoded: same layout (only fixed-size atoms were altered)
                    let view = if re.len() == t.bytes.len() { crate::atoms::Trace { bytes: re, atoms: t.atoms.clone() } } else { t.clone() };
                    let ok = refc::rev_lock(view.atom_bytes(si), view.atom_bytes(ii)[0]).map(|l| refc::scb(&l)[..] == *view.atom_bytes(li)).unwrap_or(false);
                    if !ok {
                        o.violate(
                            "decoded-pair-not-hash-pair",
                            &format!("{}:{}", smp.ty, lp),
                            format!("{} with {} of the pair at `{}` decodes: a pair whose lock is not the canonical-scalar SHA3 hash of its secret and index exists in the program", smp.ty, what, lp),
                        );
                    } else {
                        o.bump("probe.embedded_pair_altered_still_valid");
                    }
                }
            }
        }
    }
    o.nontrivial = true;
    o.shape = mix(&[0xC05C, seed]);
    o.log_hash = mix(&[o.shape, o.events, o.violations.len() as u64]);
}

use zkabacus_crypto::revlock as za_pair;

// ------------------------------------------------------------------ C14

pub struct C14;

fn atoms_of(t: &Trace, lens: &[usize]) -> Vec<(Vec<u8>, String)> {
    t.atoms
        .iter()
        .filter(|a| a.kind == AtomKind::Bytes && lens.contains(&a.len))
        .map(|a| (t.bytes[a.off..a.off + a.len].to_vec(), a.path.clone()))
        .collect()
}

/// Post-run oracle over the recorded message history.
pub fn c14_oracle(plan: &Plan, rr: &RunResult, o: &mut Outcome) {
    // Under an injected entropy fault scalars may legitimately coincide (a zero blinding factor
    // is the customer's own entropy failing, not a protocol leak); what must still hold is that
    // no *signature element* shown by the customer repeats one the merchant has seen.
    // (A source that REPORTS failure is different: the party aborts and retries, or - if the call
    // returns anyway - what it sends is judged in full.)
    let faulty_entropy = plan.entropy.iter().any(|e| e.kind != "fail");
    let lens_all = [32usize, 48, 96];
    let lens_groups = [48usize, 96];
    let lens: &[usize] = if faulty_entropy { &lens_groups } else { &lens_all };
    let g1_id = refc::bad::g1_identity().to_vec();
    let g2_id = refc::bad::g2_identity().to_vec();
    // the merchant's view: public parameters first
    let mut seen: BTreeSet<Vec<u8>> = BTreeSet::new();
    let mut seen_from: std::collections::BTreeMap<Vec<u8>, String> = std::collections::BTreeMap::new();
    for ms in &plan.merchants {
        let m = merchant(ms);
        for (b, p) in atoms_of(&m.ccfg_trace, lens) {
            seen_from.entry(b.clone()).or_insert_with(|| format!("public parameters ({})", p));
            seen.insert(b);
        }
    }
    let cids: BTreeSet<Vec<u8>> = rr.chans.iter().map(|c| c.cid.to_vec()).collect();
    let mut customer_messages = 0u64;
    let mut atoms_checked = 0u64;
    for ev in &rr.history {
        let t = match &ev.trace {
            Some(t) => t,
            None => continue,
        };
        // under an entropy fault only signature elements are judged (a commitment made with a
        // zero blinding factor may legitimately equal a public generator)
        let mine: Vec<(Vec<u8>, String)> = atoms_of(t, lens)
            .into_iter()
            .filter(|(b, p)| *b != g1_id && *b != g2_id && (!faulty_entropy || p.contains("sigma")))
            .collect();
        if ev.dir == Dir::C2M {
            customer_messages += 1;
            let kind_site = ev.kind.clone();
            // (1) reuse of a value the merchant has seen
            for (b, p) in &mine {
                atoms_checked += 1;
                if cids.contains(b) {
                    continue;
                }
                if seen.contains(b) {
                    o.violate(
                        "value-reuse",
                        &format!("{}:{}", kind_site, strip_idx(p)),
                        format!(
                            "channel {} payment {}: atom {} of the customer's {} equals a value already in the merchant's view ({})",
                            ev.chan,
                            ev.pay,
                            p,
                            ev.kind,
                            seen_from.get(b).cloned().unwrap_or_default()
                        ),
                    );
                }
            }
            // (2) secrets held by the customer at the time
            let mut secrets: Vec<(Vec<u8>, String)> = Vec::new();
            let mut exempt: BTreeSet<Vec<u8>> = cids.clone();
            match ev.kind.as_str() {
                "establish-proof" => {
                    if let Some((_, img)) = &ev.image_after {
                        secrets.extend(atoms_of(img, lens));
                    }
                }
                "start-message" => {
                    if let Some((_, img)) = &ev.image_before {
                        secrets.extend(atoms_of(img, lens));
                    }
                    if let Some((_, img)) = &ev.image_after {
                        secrets.extend(atoms_of(img, lens));
                    }
                    // the nonce shown by this message is disclosed by design
                    exempt.insert(t.get("[0]").to_vec());
                }
                "lock-message" => {
                    // the whole content is disclosed by design; it must not contain anything of the new state
                    if let Some((_, img)) = &ev.image_after {
                        secrets.extend(atoms_of(img, lens));
                    }
                }
                "closing-message" => {
                    if let Some((_, img)) = &ev.image_before {
                        secrets.extend(atoms_of(img, lens));
                    }
                    exempt.insert(t.get("close_state.revocation_lock").to_vec());
                }
                _ => {}
            }
            let mine_set: BTreeSet<&Vec<u8>> = mine.iter().map(|(b, _)| b).collect();
            for (sb, sp) in &secrets {
                if exempt.contains(sb) {
                    continue;
                }
                if mine_set.contains(sb) {
                    o.violate(
                        "secret-in-message",
                        &format!("{}:{}", kind_site, strip_idx(sp)),
                        format!("channel {} payment {}: the customer's {} contains the value held at {} of its state", ev.chan, ev.pay, ev.kind, sp),
                    );
                }
            }
            // (2b) the mask of a hidden value must itself stay hidden: for every response scalar
            // z = c*m + s over a hidden m, the commitment scalar s = z - c*m (computable by the
            // harness, which knows m from the customer's state and c from the merchant's hook) must
            // not occur anywhere in the merchant's view — otherwise m = (z - s)/c is disclosed.
            if let (Some(c), false) = (ev.challenge, faulty_entropy) {
                let rd_u64 = |img: &Trace, p: &str| -> Option<Scalar> {
                    img.find(p).map(|i| {
                        let mut x = [0u8; 8];
                        x.copy_from_slice(img.atom_bytes(i));
                        Scalar::from(u64::from_le_bytes(x))
                    })
                };
                let rd_sc = |img: &Trace, p: &str| -> Option<Scalar> { img.find(p).and_then(|i| refc::sc_opt(img.atom_bytes(i))) };
                let mut hidden: Vec<(String, Option<Scalar>, &'static str)> = Vec::new();
                let mrs = "commitment_proof.message_response_scalars";
                match (ev.kind.as_str(), &ev.image_after) {
                    ("establish-proof", Some((_, img))) => {
                        hidden.push((format!("state_proof.{}[1]", mrs), rd_sc(img, "state.nonce"), "nonce"));
                        hidden.push((format!("state_proof.{}[2]", mrs), rd_sc(img, "state.revocation_pair.lock"), "lock"));
                        hidden.push((format!("close_state_proof.{}[2]", mrs), rd_sc(img, "state.revocation_pair.lock"), "lock"));
                        hidden.push(("state_proof.commitment_proof.blinding_factor_response_scalar".into(), rd_sc(img, "pay_token_blinding_factor"), "bf-state"));
                        hidden.push(("close_state_proof.commitment_proof.blinding_factor_response_scalar".into(), rd_sc(img, "close_state_blinding_factor"), "bf-close"));
                    }
                    ("start-message", Some((_, img))) => {
                        let id = img.find("new_state.channel_id").map(|i| refc::sc_raw(img.atom_bytes(i)));
                        for pf in ["state_proof", "close_state_proof"] {
                            hidden.push((format!("[1].{}.{}[0]", pf, mrs), id, "id"));
                            hidden.push((format!("[1].{}.{}[2]", pf, mrs), rd_sc(img, "new_state.revocation_pair.lock"), "new-lock"));
                            hidden.push((format!("[1].{}.{}[3]", pf, mrs), rd_u64(img, "new_state.customer_balance"), "customer-balance"));
                            hidden.push((format!("[1].{}.{}[4]", pf, mrs), rd_u64(img, "new_state.merchant_balance"), "merchant-balance"));
                        }
                        hidden.push((format!("[1].state_proof.{}[1]", mrs), rd_sc(img, "new_state.nonce"), "new-nonce"));
                        hidden.push((format!("[1].old_pay_token_proof.{}[0]", mrs), id, "id"));
                        hidden.push((format!("[1].old_pay_token_proof.{}[2]", mrs), rd_sc(img, "old_state.revocation_pair.lock"), "old-lock"));
                        hidden.push((format!("[1].old_pay_token_proof.{}[3]", mrs), rd_u64(img, "old_state.customer_balance"), "customer-balance"));
                        hidden.push((format!("[1].old_pay_token_proof.{}[4]", mrs), rd_u64(img, "old_state.merchant_balance"), "merchant-balance"));
                        hidden.push(("[1].old_revocation_lock_proof.message_response_scalars[0]".into(), rd_sc(img, "old_state.revocation_pair.lock"), "old-lock"));
                        hidden.push(("[1].state_proof.commitment_proof.blinding_factor_response_scalar".into(), rd_sc(img, "blinding_factors.for_pay_token"), "bf-state"));
                        hidden.push(("[1].close_state_proof.commitment_proof.blinding_factor_response_scalar".into(), rd_sc(img, "blinding_factors.for_close_state"), "bf-close"));
                        hidden.push(("[1].old_revocation_lock_proof.blinding_factor_response_scalar".into(), rd_sc(img, "blinding_factors.for_old_revocation_lock"), "bf-lock"));
                        // the digits of the new balances (one digit proof each, as many as the message holds)
                        for (which, bal) in [("customer_balance_proof", "new_state.customer_balance"), ("merchant_balance_proof", "new_state.merchant_balance")] {
                            if let Some(i) = img.find(bal) {
                                let mut x = [0u8; 8];
                                x.copy_from_slice(img.atom_bytes(i));
                                let mut v = u64::from_le_bytes(x);
                                let mut j = 0;
                                loop {
                                    let zp = format!("[1].{}.digit_proofs[{}].commitment_proof.message_response_scalars[0]", which, j);
                                    if t.find(&zp).is_none() {
                                        break;
                                    }
                                    hidden.push((zp, Some(Scalar::from(v % 128)), "digit"));
                                    v /= 128;
                                    j += 1;
                                }
                            }
                        }
                    }
                    _ => {}
                }
                let mut checked = 0u64;
                // masks of values in different link classes must differ (sharing a mask between two
                // different hidden values discloses one as soon as the other is disclosed); digits
                // are each their own class
                let mut by_mask: std::collections::BTreeMap<Vec<u8>, (String, &'static str)> = std::collections::BTreeMap::new();
                for (zpath, mval, class) in hidden {
                    let (zi, mval) = match (t.find(&zpath), mval) {
                        (Some(zi), Some(mv)) => (zi, mv),
                        _ => crate::harness_error(&format!("C14: cannot locate response scalar `{}` or its hidden value (field naming drift)", zpath)),
                    };
                    let z = match refc::sc_opt(t.atom_bytes(zi)) {
                        Some(z) => z,
                        None => continue,
                    };
                    // a blinding factor is never zero under a working entropy source (a commitment
                    // blinded by zero hides nothing)
                    if class.starts_with("bf-") && mval == Scalar::zero() {
                        o.violate(
                            "blinding-factor-is-zero",
                            &format!("{}:{}", kind_site, strip_idx(&zpath)),
                            format!("channel {} payment {}: the blinding factor behind {} is zero although no draw of the customer's generator returned zero", ev.chan, ev.pay, zpath),
                        );
                    }
                    let mask = refc::scb(&(z - c * mval)).to_vec();
                    if mask[..] == *t.atom_bytes(zi) {
                        // hidden value 0: the response is the mask and by itself discloses nothing;
                        // but the same mask under two different hidden values (two digit slots
                        // carrying byte-identical proofs) still tells the merchant they are equal
                        match by_mask.get(&mask) {
                            Some((other, oclass)) if *oclass != class || class == "digit" => {
                                o.violate(
                                    "mask-shared-between-hidden-values",
                                    &format!("{}:{}", kind_site, strip_idx(&zpath)),
                                    format!("channel {} payment {}: {} ({}) and {} ({}) are masked by the same commitment scalar (both hidden values are zero, and the merchant learns it)", ev.chan, ev.pay, zpath, class, other, oclass),
                                );
                            }
                            _ => {
                                by_mask.insert(mask.clone(), (zpath.clone(), class));
                            }
                        }
                        o.bump("probe.zero_hidden_value_in_proof");
                        continue;
                    }
                    checked += 1;
                    // a mask must be a full-size field element: a short one lets the merchant test
                    // candidate values of a small hidden domain (a digit, a balance)
                    if mask[20..].iter().all(|b| *b == 0) {
                        o.violate(
                            "mask-of-hidden-value-too-short",
                            &format!("{}:{}", kind_site, strip_idx(&zpath)),
                            format!("channel {} payment {}: the commitment scalar masking {} is shorter than 160 bits", ev.chan, ev.pay, zpath),
                        );
                    }
                    // nor may the mask be one of the customer's own secrets (a blinding factor used
                    // as its own mask gives z = (c + 1) * bf)
                    if let Some((_, sp)) = secrets.iter().find(|(b, _)| *b == mask) {
                        o.violate(
                            "mask-of-hidden-value-is-a-secret",
                            &format!("{}:{}", kind_site, strip_idx(&zpath)),
                            format!("channel {} payment {}: the commitment scalar masking {} equals the secret held at {} of the customer's state", ev.chan, ev.pay, zpath, sp),
                        );
                    }
                    match by_mask.get(&mask) {
                        Some((other, oclass)) if *oclass != class || class == "digit" => {
                            o.violate(
                                "mask-shared-between-hidden-values",
                                &format!("{}:{}", kind_site, strip_idx(&zpath)),
                                format!("channel {} payment {}: {} ({}) and {} ({}) are masked by the same commitment scalar", ev.chan, ev.pay, zpath, class, other, oclass),
                            );
                        }
                        _ => {
                            by_mask.insert(mask.clone(), (zpath.clone(), class));
                        }
                    }
                    // a mask can coincide with a *response* scalar of the same message only when a
                    // linked hidden value is zero (z = s), which discloses nothing; what must not
                    // happen is that it is one of the scalars the message reveals as such
                    let in_msg = mine.iter().find(|(b, p)| *b == mask && !p.contains("response_scalar")).map(|(_, p)| p.clone());
                    if let Some(p) = in_msg {
                        o.violate(
                            "mask-of-hidden-value-revealed",
                            &format!("{}:{}", kind_site, strip_idx(&zpath)),
                            format!("channel {} payment {}: the commitment scalar masking the hidden value behind {} is itself in the message (atom {}), so the hidden value can be computed", ev.chan, ev.pay, zpath, p),
                        );
                    } else if seen.contains(&mask) {
                        o.violate(
                            "mask-of-hidden-value-revealed",
                            &format!("{}:{}", kind_site, strip_idx(&zpath)),
                            format!("channel {} payment {}: the commitment scalar masking the hidden value behind {} equals a value already in the merchant's view ({})", ev.chan, ev.pay, zpath, seen_from.get(&mask).cloned().unwrap_or_default()),
                        );
                    }
                }
                o.add("probe.hidden_value_masks_checked", checked);
            }
            // (3) hidden balances as scalars (pay proofs hide them)
            if ev.kind == "start-message" && !faulty_entropy {
                for img in [&ev.image_before, &ev.image_after].iter().filter_map(|x| x.as_ref()) {
                    for a in img.1.atoms.iter().filter(|a| a.kind == AtomKind::U64 && a.path.contains("balance")) {
                        let mut x = [0u8; 8];
                        x.copy_from_slice(&img.1.bytes[a.off..a.off + 8]);
                        let enc = refc::scb(&Scalar::from(u64::from_le_bytes(x))).to_vec();
                        if mine_set.contains(&enc) {
                            o.violate("hidden-balance-in-message", &format!("{}:{}", kind_site, a.path), format!("channel {} payment {}: a 32-byte atom equals the scalar encoding of a hidden balance", ev.chan, ev.pay));
                        }
                    }
                }
            }
        }
        for (b, p) in mine {
            seen_from.entry(b.clone()).or_insert_with(|| format!("{} #{} atom {}", ev.kind, ev.seq, p));
            seen.insert(b);
        }
    }
    o.add("probe.customer_messages_checked", customer_messages);
    o.add("atoms_checked", atoms_checked);
}

fn strip_idx(p: &str) -> String {
    // digit proofs and array slots share a site
    let mut out = String::new();
    let mut in_br = false;
    for ch in p.chars() {
        match ch {
            '[' => {
                in_br = true;
                out.push('[');
            }
            ']' => {
                in_br = false;
                out.push(']');
            }
            _ if in_br => {}
            c => out.push(c),
        }
    }
    out
}

/// Freshness: the same stored customer stage, advanced twice with two different entropy streams,
/// must get two different nonces, revocation secrets, locks and blinding factors for its new
/// state (a "fresh" value that is a function of the old state alone is known to whoever learns
/// the old state, which the lock message discloses).
fn c14_freshness(o: &mut Outcome, seed: u64) {
    use crate::rng::SimRng;
    use zkabacus_crypto as za;
    let m = merchant("9001");
    let mut rng = SimRng::new(seed, "c14/fresh/establish");
    let cid = za::ChannelId::new(za::MerchantRandomness::new(&mut rng), za::CustomerRandomness::new(&mut rng), m.cfg.signing_keypair().public_key(), b"m", b"c");
    let ctx = za::Context::new(b"c14-fresh");
    let (cb, mb) = (za::CustomerBalance::try_new(90).unwrap(), za::MerchantBalance::try_new(9).unwrap());
    let (req, proof) = za::customer::Requested::new(&mut rng, &m.ccfg, cid, mb, cb, &ctx);
    let ready = match m.cfg.initialize(&mut rng, &cid, cb, mb, proof, &ctx) {
        Some((cs, vbs)) => req.complete(cs, &m.ccfg).ok().and_then(|i| i.activate(m.cfg.activate(&mut rng, vbs), &m.ccfg).ok()),
        None => None,
    };
    let ready = match ready {
        Some(r) => r,
        None => crate::harness_error("C14 freshness: honest establishment failed (see C04)"),
    };
    let image = crate::atoms::encode(&ready);
    let amt = za::PaymentAmount::pay_merchant(1 + seed % 5).unwrap_or_else(|_| crate::harness_error("amount"));
    let mut imgs = Vec::new();
    for k in 0..2 {
        let r: za::customer::Ready = bincode::deserialize(&image).unwrap_or_else(|_| crate::harness_error("C14 freshness: ready image does not decode (see C20)"));
        let mut e = SimRng::new(seed, &format!("c14/fresh/start/{}", k));
        match r.start(&mut e, amt, &za::Context::new(b"c14-fresh-pay"), &m.ccfg) {
            Ok((st, _)) => imgs.push(crate::atoms::trace(&st)),
            Err(_) => crate::harness_error("C14 freshness: an admissible payment could not be started"),
        }
    }
    o.events = 5;
    for path in ["new_state.nonce", "new_state.revocation_pair.lock", "new_state.revocation_pair.secret.secret", "blinding_factors.for_old_revocation_lock.0", "blinding_factors.for_pay_token.0", "blinding_factors.for_close_state.0"] {
        // tolerate newtype paths with or without the ".0" suffix
        let p = if imgs[0].find(path).is_some() { path.to_string() } else { path.trim_end_matches(".0").to_string() };
        match (imgs[0].find(&p), imgs[1].find(&p)) {
            (Some(a), Some(b)) => {
                o.bump("probe.freshness_compared");
                if imgs[0].atom_bytes(a) == imgs[1].atom_bytes(b) {
                    o.violate("state-not-fresh", &format!("customer::Started:{}", p), format!("two different entropy streams give the same {} for the new state: it is a function of the old state alone", p));
                }
            }
            _ => crate::harness_error(&format!("C14 freshness: no atom `{}` in the Started image (field naming drift)", p)),
        }
    }
    o.nontrivial = true;
    o.shape = mix(&[0xC14F, seed]);
    o.log_hash = mix(&[o.shape, o.violations.len() as u64]);
}

impl Prop for C14 {
    fn id(&self) -> &'static str {
        "C14"
    }
    fn level(&self) -> &'static str {
        "exploration"
    }
    fn cases(&self, tier: Tier, seed: u64) -> CaseSet {
        let mut en: Vec<Value> = (0..(if tier == Tier::Quick { 4u64 } else { 100 })).map(|k| json!({"f": "freshness", "seed": mix(&[seed, 0xC14F, k])})).collect();
        // the customer's entropy source REPORTS failure at one draw of Ready::start (every draw): the customer aborts and retries, or sends
        // something that must stand on its own
        let _ = tier;
        for at in 0..96usize {
            let plan = Plan {
                seed: mix(&[seed, 0xC14D, at as u64]),
                merchants: vec!["9001".into()],
                channels: vec![ChanPlan { merchant: 0, cust_bal: 50, merch_bal: 5, est_cs_faults: vec![], est_pt_faults: vec![], payments: vec![PayPlan { amount: 3, cs_faults: vec![], lock_faults: vec![], pt_faults: vec![] }], stop_at: 1, stop_stage: "ready".into() }],
                order: vec![0],
                wire: false,
                crash: "none".into(),
                crash_steps: vec![],
                entropy: vec![EntropyPlan { chan: 0, pay: 0, op: "start".into(), at, width: 1, kind: "fail".into() }],
            };
            en.push(case_of(&plan, json!({})));
        }
        CaseSet {
            enumerated: en,
            random: match tier {
                Tier::Quick => 300,
                Tier::Thorough => 30_000,
            },
            exhaustive: false,
        }
    }
    fn random_case(&self, _tier: Tier, seed: u64, idx: usize) -> Value {
        let mut p = Profile::byzantine();
        p.channels = (2, 4);
        p.payments = (0, 3);
        p.reply_fault = (30, 100);
        p.fault_free_pct = 30;
        let mut plan = gen_plan(mix(&[seed, 0xC14A, idx as u64]), &p);
        if idx % 3 == 2 {
            // entropy faults on the customer's generators: a zero draw inside start / close
            let mut sch = Sched::new(mix(&[seed, 0xC14E, idx as u64]), "c14/entropy");
            for ci in 0..plan.channels.len() {
                let np = plan.channels[ci].payments.len();
                if np > 0 && sch.chance(2, 3) {
                    plan.entropy.push(EntropyPlan { chan: ci, pay: sch.usize(np) as i32, op: "start".into(), at: sch.usize(92), width: 1, kind: "zeros".into() });
                }
                if sch.chance(1, 2) {
                    plan.entropy.push(EntropyPlan { chan: ci, pay: 9999, op: "close".into(), at: 0, width: 1, kind: "zeros".into() });
                }
            }
        }
        case_of(&plan, json!({}))
    }
    fn run(&self, case: &Value) -> Outcome {
        let mut o = Outcome::default();
        if case["f"] == "freshness" {
            c14_freshness(&mut o, case["seed"].as_u64().unwrap_or(0));
            return o;
        }
        let plan = plan_of(case);
        let rr = run_plan(&plan, &mut o);
        c14_oracle(&plan, &rr, &mut o);
        keep(&mut o, &["blinding-factor-is-zero", "state-not-fresh", "mask-of-hidden-value-is-a-secret", "mask-shared-between-hidden-values", "mask-of-hidden-value-too-short", "mask-of-hidden-value-revealed", "value-reuse", "secret-in-message", "hidden-balance-in-message", "nonce-not-fresh", "revocation-lock-not-fresh", "channel-id-not-fresh", "panic"]);
        o.nontrivial = o.stats.get("probe.customer_messages_checked").cloned().unwrap_or(0) >= 3;
        o
    }
    fn shrink(&self, case: &Value) -> Vec<Value> {
        if case["f"] == "freshness" {
            return Vec::new();
        }
        shrink_world_case(case)
    }
    fn rule(&self) -> String {
        "(freshness cases: one stored Ready stage advanced twice under two entropy streams; the new state's nonce, revocation secret, lock and the three blinding factors must all differ.) one case = one multi-channel plan (2-4 channels over two merchants, 0-3 payments each, closes from every stage, refused replies, drawn interleaving; in a third of the cases additionally a zero draw injected at a drawn draw index of the customer's generator inside start / close, in which case only signature elements are judged and the identity is exempt); after the run every 32/48/96-byte atom of every customer-to-merchant message is compared with all atoms of all earlier messages in either direction and of the public parameters (channel id exempt), with the atoms of the customer's stage image before/after the step minus what the message discloses by design, and with the scalar encodings of hidden balances; and for every response scalar over a hidden value the commitment scalar that masks it (computed from the customer's state and the merchant's challenge, read through the hook) must not occur in the merchant's view, must be a full-size field element, and must not be shared between values of different link classes. Distinct = distinct executed event/outcome sequence; non-trivial = at least three customer messages were checked".into()
    }
    fn assumptions(&self) -> Vec<String> {
        vec!["exact-value reuse is a necessary condition for unlinkability, not a proof of zero knowledge".into(), "equalities inside one message (linked response scalars) are allowed".into()]
    }
    fn required_probes(&self, _tier: Tier) -> Vec<&'static str> {
        vec!["probe.customer_messages_checked", "probe.payment_completed", "probe.stop_at_started", "probe.stop_at_locked", "fault.entropy.customer-zero-draw", "probe.hidden_value_masks_checked", "probe.freshness_compared"]
    }
}

// ------------------------------------------------------------------ twin runs (C20, C15 wire-diff)

pub fn diff_histories(a: &[Ev], b: &[Ev]) -> Option<(usize, String)> {
    let n = a.len().min(b.len());
    for i in 0..n {
        let (x, y) = (&a[i], &b[i]);
        if x.kind != y.kind || x.chan != y.chan || x.pay != y.pay {
            return Some((i, format!("event {}: {} (channel {}) vs {} (channel {})", i, x.kind, x.chan, y.kind, y.chan)));
        }
        if x.outcome != y.outcome {
            return Some((i, format!("event {} ({}): outcome {} vs {}", i, x.kind, x.outcome, y.outcome)));
        }
        let xb = x.trace.as_ref().map(|t| &t.bytes);
        let yb = y.trace.as_ref().map(|t| &t.bytes);
        if xb != yb {
            return Some((i, format!("event {} ({}): message bytes differ", i, x.kind)));
        }
        let xi = x.image_after.as_ref().map(|t| &t.1.bytes);
        let yi = y.image_after.as_ref().map(|t| &t.1.bytes);
        if xi != yi {
            return Some((i, format!("event {} ({}): customer stage image after the step differs", i, x.kind)));
        }
    }
    if a.len() != b.len() {
        return Some((n, format!("histories have {} and {} events", a.len(), b.len())));
    }
    None
}

pub struct C20;

impl Prop for C20 {
    fn id(&self) -> &'static str {
        "C20"
    }
    fn level(&self) -> &'static str {
        "fault_enumeration"
    }
    fn cases(&self, tier: Tier, seed: u64) -> CaseSet {
        // entropy sweep: a one-payment channel, crashed and restored at every step, with the
        // customer's generator faulted at each early draw of Requested::new / Ready::start
        // (zero, stuck = previous draw repeated, close tag; width 1 and 2): whatever state results
        // must be restorable
        let mut v = Vec::new();
        let (n_new, n_start) = if tier == Tier::Quick { (12usize, 6usize) } else { (12, 30) };
        for (op, n) in [("new", n_new), ("start", n_start)] {
            for at in 0..n {
                for (kind, width) in [("zeros", 1usize), ("zeros", 2), ("repeat", 1), ("closetag", 1), ("longindex", 1)] {
                    if tier == Tier::Quick && op == "start" && kind == "closetag" {
                        continue;
                    }
                    let plan = Plan {
                        seed: mix(&[seed, 0xC20E, at as u64, width as u64, crate::hash_str(kind), crate::hash_str(op)]),
                        merchants: vec!["9001".into()],
                        channels: vec![ChanPlan { merchant: 0, cust_bal: 80, merch_bal: 8, est_cs_faults: vec![], est_pt_faults: vec![], payments: vec![PayPlan { amount: 2, cs_faults: vec![], lock_faults: vec![], pt_faults: vec![] }], stop_at: 1, stop_stage: "ready".into() }],
                        order: vec![0],
                        wire: false,
                        crash: "every".into(),
                        crash_steps: vec![],
                        entropy: vec![EntropyPlan { chan: 0, pay: if op == "new" { -1 } else { 0 }, op: op.into(), at, width, kind: kind.into() }],
                    };
                    v.push(case_of(&plan, json!({})));
                }
            }
        }
        CaseSet {
            enumerated: v,
            random: match tier {
                Tier::Quick => 260,
                Tier::Thorough => 30_000,
            },
            exhaustive: false,
        }
    }
    fn random_case(&self, _tier: Tier, seed: u64, idx: usize) -> Value {
        let s = mix(&[seed, 0xC20A, idx as u64]);
        let mut sch = Sched::new(s, "c20");
        let mut p = if idx % 3 == 0 { Profile::honest(idx % 2 == 0) } else { Profile::byzantine() };
        p.wire = Some(false);
        p.random_stop = true;
        let mut plan = gen_plan(s, &p);
        match idx % 4 {
            0 => plan.crash = "every".into(),
            1 => plan.crash = "after-refusal".into(),
            2 => {
                plan.crash = "steps".into();
                plan.crash_steps = vec![(sch.usize(plan.channels.len()), sch.usize(12))];
            }
            _ => {
                plan.crash = "steps".into();
                for c in 0..plan.channels.len() {
                    for st in 0..14 {
                        if sch.chance(1, 3) {
                            plan.crash_steps.push((c, st));
                        }
                    }
                }
            }
        }
        if idx % 5 == 4 {
            // both twins also meet an entropy fault (close-tag bytes or zeros at a drawn draw of
            // new / start): whatever state results must still be restorable
            for ci in 0..plan.channels.len() {
                let kind = if sch.chance(2, 3) { "closetag" } else { "zeros" };
                plan.entropy.push(EntropyPlan { chan: ci, pay: -1, op: "new".into(), at: sch.usize(12), width: 1 + sch.usize(2), kind: kind.into() });
                let np = plan.channels[ci].payments.len();
                if np > 0 {
                    plan.entropy.push(EntropyPlan { chan: ci, pay: sch.usize(np) as i32, op: "start".into(), at: sch.usize(8), width: 1 + sch.usize(2), kind: kind.into() });
                }
            }
        }
        case_of(&plan, json!({}))
    }
    fn run(&self, case: &Value) -> Outcome {
        let plan_b = plan_of(case);
        let mut plan_a = plan_b.clone();
        plan_a.crash = "none".into();
        plan_a.crash_steps.clear();
        plan_a.wire = false;
        let mut oa = Outcome::default();
        let ra = run_plan(&plan_a, &mut oa);
        let mut o = Outcome::default();
        let rb = run_plan(&plan_b, &mut o);
        if let Some((i, d)) = diff_histories(&ra.history, &rb.history) {
            let kind = ra.history.get(i).map(|e| e.kind.clone()).unwrap_or_else(|| "length".into());
            o.violate("restored-customer-diverges", &kind, format!("never-stored vs crashed-and-restored customer: {}", d));
        }
        o.events += oa.events;
        // ledger / identity classes are kept only if the never-stored twin does not show them too
        let a_classes: BTreeSet<String> = oa.violations.iter().map(|v| v.class.clone()).collect();
        o.violations.retain(|v| !(["channel-id-changed", "closing-message-wrong-channel-id", "balance-differs-from-ledger", "closing-message-wrong-balances"].contains(&v.class.as_str()) && a_classes.contains(&v.class)));
        keep(
            &mut o,
            &["restored-customer-diverges", "restored-image-differs", "stored-stage-rejected", "truncated-image-accepted", "panic", "channel-id-changed", "closing-message-wrong-channel-id", "balance-differs-from-ledger", "closing-message-wrong-balances"],
        );
        o.nontrivial = o.stats.get("fault.crash_restore").cloned().unwrap_or(0) > 0;
        o
    }
    fn shrink(&self, case: &Value) -> Vec<Value> {
        shrink_world_case(case)
    }
    fn rule(&self) -> String {
        "one case = one C03/C04-style plan executed twice with the same keyed entropy: twin A never stores its customer stage; twin B is crashed and restored from its bincode image at a crash set drawn from {every step, one drawn step, the step right after each refused reply, a random subset}. At each crash point encode(restored) must equal the image and a truncated image must not decode; over the run the two histories (every message byte, every outcome, every stage image, the closing message) must be identical. Distinct = distinct executed event/outcome sequence x crash set; non-trivial = at least one crash-and-restore happened".into()
    }
    fn assumptions(&self) -> Vec<String> {
        vec!["entropy is keyed by logical operation, so both twins see the same randomness by construction".into(), "merchant replies are a function of the customer's bytes and the keyed merchant entropy".into()]
    }
    fn required_probes(&self, _tier: Tier) -> Vec<&'static str> {
        vec![
            "fault.crash_restore",
            "probe.crash_in_requested",
            "probe.crash_in_inactive",
            "probe.crash_in_ready",
            "probe.crash_in_started",
            "probe.crash_in_locked",
            "probe.crash_right_after_refusal",
            "probe.payment_completed",
        ]
    }
}

pub fn run_wire_diff(o: &mut Outcome, case: &Value) {
    let seed = case["seed"].as_u64().unwrap_or(0);
    let mut plan_on = match case.get("plan") {
        Some(p) if !p.is_null() => plan_of(case),
        _ => {
            let mut p = if seed % 3 == 0 { Profile::byzantine() } else { Profile::honest(seed % 2 == 0) };
            p.random_stop = true;
            p.max_admissible = 2;
            gen_plan(seed, &p)
        }
    };
    plan_on.wire = true;
    plan_on.crash = "none".into();
    let mut plan_off = plan_on.clone();
    plan_off.wire = false;
    let mut o_off = Outcome::default();
    let r_off = run_plan(&plan_off, &mut o_off);
    let r_on = run_plan(&plan_on, o);
    if let Some((i, d)) = diff_histories(&r_off.history, &r_on.history) {
        let kind = r_off.history.get(i).map(|e| e.kind.clone()).unwrap_or_else(|| "length".into());
        o.violate("wire-changes-behaviour", &kind, format!("in-process hand-over vs every hop encoded and decoded: {}", d));
    }
    o.events += o_off.events;
    if o.stats.get("probe.payment_completed").cloned().unwrap_or(0) > 0 {
        o.bump("probe.wire_diff_payment_completed");
    }
    keep(
        o,
        &["wire-changes-behaviour", "honest-message-rejected-by-decoder", "channel-id-text-roundtrip", "restored-image-differs", "stored-stage-rejected"],
    );
    o.nontrivial = o.stats.get("probe.payment_completed").cloned().unwrap_or(0) > 0;
}

pub fn shrink_seeded_plan(case: &Value) -> Vec<Value> {
    // make the plan explicit, then shrink it
    let seed = case["seed"].as_u64().unwrap_or(0);
    let plan = match case.get("plan") {
        Some(p) if !p.is_null() => plan_of(case),
        _ => {
            let mut p = if seed % 3 == 0 { Profile::byzantine() } else { Profile::honest(seed % 2 == 0) };
            p.random_stop = true;
            p.max_admissible = 2;
            gen_plan(seed, &p)
        }
    };
    shrink_plan(&plan)
        .into_iter()
        .map(|q| json!({"f": "wire-diff", "seed": seed, "plan": serde_json::to_value(&q).unwrap()}))
        .collect()
}
