//! C06 — an accepted proof is rejected under any other statement, key or context; recorded
//! messages do not transfer between sessions; closing messages with a substituted field fail.

use crate::atoms::{self, AtomKind, Trace};
use crate::driver::{CaseSet, Outcome, Prop, Tier};
use crate::forge::{self, Agreed};
use crate::harvest;
use crate::mctx::{merchant, MerchantCtx};
use crate::mutate;
use crate::plangen::{gen_plan, Profile};
use crate::props::world_props::{case_of, keep, plan_of, run_plan, shrink_world_case};
use crate::refc;
use crate::rng::{mix, EntropyFault, Sched, SimRng};
use crate::world::*;
use serde_json::{json, Value};
use std::collections::BTreeMap;
use zkabacus_crypto as za;
use zkabacus_crypto::Verification;

pub struct C06;
const MSPEC: &str = "9001";

/// A merchant configuration that differs from `base` in exactly one atom of one part
/// ("kp" public half, "rev", "range"), replaced by another valid element.
fn near_config(base: &MerchantCtx, part: &str, pick: u64, seed: u64) -> Option<(za::merchant::Config, String)> {
    use bls12_381::G1Projective;
    use zkchannels_crypto::{pedersen::PedersenParameters, pointcheval_sanders::KeyPair, proofs::RangeConstraintParameters};
    let kp: KeyPair<5> = bincode::deserialize(&base.kp_bytes).ok()?;
    let rev: PedersenParameters<G1Projective, 1> = bincode::deserialize(&base.rev_bytes).ok()?;
    let range: RangeConstraintParameters = bincode::deserialize(&base.range_bytes).ok()?;
    let pick_atom = |t: &Trace, filter: &dyn Fn(&str) -> bool| -> Option<usize> {
        let idx: Vec<usize> = (0..t.atoms.len()).filter(|&i| t.atoms[i].kind == AtomKind::Bytes && (t.atoms[i].len == 48 || t.atoms[i].len == 96) && filter(&t.atoms[i].path)).collect();
        if idx.is_empty() {
            None
        } else {
            Some(idx[(pick as usize) % idx.len()])
        }
    };
    match part {
        "kp" => {
            let mut t = atoms::trace(&kp);
            let i = pick_atom(&t, &|p| p.starts_with("pk."))?;
            let a = t.atoms[i].clone();
            let sub = mutate::substitute(a.len, "other", seed, t.atom_bytes(i));
            t.set_atom(i, &sub);
            let kp2: KeyPair<5> = bincode::deserialize(&t.bytes).ok()?;
            Some((za::merchant::Config::from_parts(kp2, rev, range), format!("key:{}", a.path)))
        }
        "rev" => {
            let mut t = atoms::trace(&rev);
            let i = pick_atom(&t, &|_| true)?;
            let a = t.atoms[i].clone();
            let sub = mutate::substitute(a.len, "other", seed, t.atom_bytes(i));
            t.set_atom(i, &sub);
            let rev2: PedersenParameters<G1Projective, 1> = bincode::deserialize(&t.bytes).ok()?;
            Some((za::merchant::Config::from_parts(kp, rev2, range), format!("revocation-parameters:{}", a.path)))
        }
        _ => {
            // re-randomise one digit signature: still a valid parameter set under the same key
            let mut t = atoms::trace(&range);
            let k = (pick % 128) as usize;
            let p1 = format!("digit_signatures[{}].sigma1", k);
            let p2 = format!("digit_signatures[{}].sigma2", k);
            let mut s = Sched::new(seed, "c06/near-range");
            let r = refc::rand_nonzero(&mut s);
            let s1 = refc::g1(t.get(&p1)) * r;
            let s2 = refc::g1(t.get(&p2)) * r;
            t.set(&p1, &refc::g1b(&s1));
            t.set(&p2, &refc::g1b(&s2));
            let range2: RangeConstraintParameters = bincode::deserialize(&t.bytes).ok()?;
            if range2.validate().is_err() {
                crate::harness_error("C06: re-randomised digit signature is not valid (harness bug)");
            }
            Some((za::merchant::Config::from_parts(kp, rev, range2), format!("range-parameters:digit_signatures[{}]", k)))
        }
    }
}

fn leak(c: za::merchant::Config) -> &'static za::merchant::Config {
    Box::leak(Box::new(c))
}

fn establish_substitutions(o: &mut Outcome, seed: u64) {
    let m = merchant(MSPEC);
    let mut s = Sched::new(seed, "c06/est");
    let (cb, mb) = (1 + s.below(100_000), 1 + s.below(100_000));
    let ag = forge::fresh_agreed(m, &mut s, cb, mb, "c06");
    let t = forge::est_template(m, &ag, seed);
    let base = forge::present_establish(m, &ag, &t.bytes, "c06/est/base", seed);
    if base.accepted.is_none() {
        crate::harness_error("C06: the honest establish proof is refused under its own tuple (positive control)");
    }
    o.events += 1;
    o.bump("probe.establish_control_accepted");
    let present = |o: &mut Outcome, name: &str, cfg: &za::merchant::Config, cid: za::ChannelId, c: u64, mm: u64, ctx: &[u8]| {
        let proof: za::EstablishProof = bincode::deserialize(&t.bytes).unwrap_or_else(|_| crate::harness_error("C06: proof bytes"));
        let (cbal, mbal) = match (za::CustomerBalance::try_new(c), za::MerchantBalance::try_new(mm)) {
            (Ok(a), Ok(b)) => (a, b),
            _ => return,
        };
        let mut rng = SimRng::new(seed, "c06/est/sub");
        o.bump("fault.substitution.establish");
        o.events += 1;
        if cfg.initialize(&mut rng, &cid, cbal, mbal, proof, &za::Context::new(ctx)).is_some() {
            o.violate("proof-accepted-under-substituted-tuple", &format!("EstablishProof/{}", name), format!("an establish proof accepted for its own tuple is also accepted with {} replaced", name));
        } else {
            o.bump("probe.substituted_tuple_refused");
        }
    };
    // channel id: fresh, and one bit flipped at a drawn position of every byte
    let other = forge::fresh_agreed(m, &mut s, cb, mb, "c06-other");
    present(o, "channel-id(fresh)", &m.cfg, other.cid, cb, mb, &ag.ctx_bytes);
    for byte in 0..32 {
        let mut b = ag.cid.to_bytes();
        b[byte] ^= 1 << s.usize(8);
        let cid2: za::ChannelId = bincode::deserialize(&b).unwrap_or_else(|_| crate::harness_error("cid"));
        present(o, "channel-id(one bit)", &m.cfg, cid2, cb, mb, &ag.ctx_bytes);
    }
    for (name, c2, m2) in [("customer-balance+1", cb + 1, mb), ("customer-balance-1", cb - 1, mb), ("merchant-balance+1", cb, mb + 1), ("merchant-balance-1", cb, mb - 1), ("balances-swapped", mb, cb), ("customer-balance(fresh)", s.u64() >> 2, mb), ("merchant-balance(fresh)", cb, s.u64() >> 2)] {
        if c2 == cb && m2 == mb {
            continue;
        }
        present(o, name, &m.cfg, ag.cid, c2, m2, &ag.ctx_bytes);
    }
    let mut c1 = ag.ctx_bytes.clone();
    let pos = s.usize(c1.len());
    c1[pos] ^= 1 << s.usize(8);
    present(o, "context(one byte)", &m.cfg, ag.cid, cb, mb, &c1);
    let mut c2 = ag.ctx_bytes.clone();
    c2.push(0);
    present(o, "context(length)", &m.cfg, ag.cid, cb, mb, &c2);
    present(o, "context(fresh)", &m.cfg, ag.cid, cb, mb, b"another context");
    {
        use sha3::{Digest, Sha3_256};
        let d = Sha3_256::digest(&ag.ctx_bytes).to_vec();
        present(o, "context(digest of the original)", &m.cfg, ag.cid, cb, mb, &d);
        let own = za::Context::new(&ag.ctx_bytes).as_bytes();
        present(o, "context(context bytes of the original)", &m.cfg, ag.cid, cb, mb, &own);
    }
    // a long session transcript as context: a proof made for it must not verify under a
    // transcript that differs late
    {
        let ll = 300 + s.usize(900);
        let mut long = s.bytes(ll);
        let agl = Agreed { cid: ag.cid, cust: cb, merch: mb, ctx_bytes: long.clone() };
        let tl = forge::est_template(m, &agl, mix(&[seed, 5]));
        let ok = forge::present_establish(m, &agl, &tl.bytes, "c06/est/long", seed);
        if ok.accepted.is_none() {
            crate::harness_error("C06: honest establish proof under a long context is refused (positive control)");
        }
        let n = long.len();
        let (p3, p4) = (257 + s.usize(n - 258), s.usize(n));
        for pos in [n - 1, 256, p3, p4] {
            long[pos] ^= 0x40;
            let proof: za::EstablishProof = bincode::deserialize(&tl.bytes).unwrap_or_else(|_| crate::harness_error("proof bytes"));
            let mut rng = SimRng::new(seed, "c06/est/long-sub");
            o.bump("fault.substitution.establish");
            o.events += 1;
            let cbal = za::CustomerBalance::try_new(cb).unwrap();
            let mbal = za::MerchantBalance::try_new(mb).unwrap();
            if m.cfg.initialize(&mut rng, &ag.cid, cbal, mbal, proof, &za::Context::new(&long)).is_some() {
                o.violate("proof-accepted-under-substituted-tuple", "EstablishProof/context(long, one byte)", format!("an establish proof made for a {}-byte context is accepted under a context differing at byte {}", n, pos));
            }
            long[pos] ^= 0x40;
        }
    }
    present(o, "merchant-key(fresh)", &merchant("9002").cfg, ag.cid, cb, mb, &ag.ctx_bytes);
    for k in 0..3 {
        if let Some((cfg, what)) = near_config(m, "kp", s.u64(), mix(&[seed, k])) {
            let cfg = leak(cfg);
            present(o, &format!("merchant-{}", strip_idx(&what)), cfg, ag.cid, cb, mb, &ag.ctx_bytes);
        }
    }
}

fn strip_idx(p: &str) -> String {
    let mut out = String::new();
    let mut in_br = false;
    for ch in p.chars() {
        match ch {
            '[' => {
                in_br = true;
                out.push('[');
            }
            ']' => {
                in_br = false;
                out.push(']');
            }
            _ if in_br => {}
            c => out.push(c),
        }
    }
    out
}

fn pay_substitutions(o: &mut Outcome, seed: u64, heavy: bool) {
    let m = merchant(MSPEC);
    let hs = harvest::pay_sample(seed % 4, MSPEC);
    let base = forge::present_pay(m, hs.amount, &hs.nonce, &hs.ctx, &hs.proof.bytes, seed, "c06/pay/base");
    if base.accepted.is_none() {
        crate::harness_error("C06: the honest pay proof is refused under its own tuple (positive control)");
    }
    o.events += 1;
    o.bump("probe.pay_control_accepted");
    let mut s = Sched::new(seed, "c06/pay");
    let present_cfg = |o: &mut Outcome, name: &str, cfg: &'static za::merchant::Config, amount: i64, nonce: &[u8], ctx: &[u8]| {
        let proof: za::PayProof = bincode::deserialize(&hs.proof.bytes).unwrap_or_else(|_| crate::harness_error("C06: proof bytes"));
        let nonce: za::Nonce = match bincode::deserialize(nonce) {
            Ok(n) => n,
            Err(_) => return,
        };
        let amt: za::PaymentAmount = match bincode::deserialize(&amount.to_le_bytes()) {
            Ok(a) => a,
            Err(_) => return,
        };
        let mut rng = SimRng::new(seed, "c06/pay/sub");
        o.bump("fault.substitution.pay");
        o.events += 1;
        if cfg.allow_payment(&mut rng, amt, &nonce, proof, &za::Context::new(ctx)).is_some() {
            o.violate("proof-accepted-under-substituted-tuple", &format!("PayProof/{}", name), format!("a pay proof accepted for its own tuple is also accepted with {} replaced", name));
        } else {
            o.bump("probe.substituted_tuple_refused");
        }
    };
    let cfg0: &'static za::merchant::Config = &m.cfg;
    let a = hs.amount;
    for (name, a2) in [("amount+1", a + 1), ("amount-1", a - 1), ("amount-negated", -a), ("amount-zero", 0), ("amount(fresh)", (s.u64() >> 20) as i64)] {
        if a2 != a {
            present_cfg(o, name, cfg0, a2, &hs.nonce, &hs.ctx);
        }
    }
    let n2 = refc::scb(&refc::rand_scalar(&mut s)).to_vec();
    present_cfg(o, "nonce(fresh)", cfg0, a, &n2, &hs.ctx);
    let mut n3 = hs.nonce.clone();
    n3[s.usize(31)] ^= 1;
    present_cfg(o, "nonce(one bit)", cfg0, a, &n3, &hs.ctx);
    let mut c1 = hs.ctx.clone();
    let pos = s.usize(c1.len());
    c1[pos] ^= 1 << s.usize(8);
    present_cfg(o, "context(one byte)", cfg0, a, &hs.nonce, &c1);
    let mut c2 = hs.ctx.clone();
    c2.push(b'x');
    present_cfg(o, "context(length)", cfg0, a, &hs.nonce, &c2);
    present_cfg(o, "merchant-key(fresh)", &merchant("9002").cfg, a, &hs.nonce, &hs.ctx);
    present_cfg(o, "range-parameters(fresh)", &merchant("9001/range=9002").cfg, a, &hs.nonce, &hs.ctx);
    present_cfg(o, "revocation-parameters(fresh)", &merchant("9001/rev=9002").cfg, a, &hs.nonce, &hs.ctx);
    let n_near = if heavy { 6 } else { 2 };
    for k in 0..n_near {
        for part in ["kp", "rev", "range"] {
            if let Some((cfg, what)) = near_config(m, part, s.u64(), mix(&[seed, k])) {
                present_cfg(o, &strip_idx(&what), leak(cfg), a, &hs.nonce, &hs.ctx);
            }
        }
    }
    // the whole tuple of another session
    let other = harvest::pay_sample((seed + 1) % 4, MSPEC);
    let r = forge::present_pay(m, other.amount, &other.nonce, &other.ctx, &hs.proof.bytes, seed, "c06/pay/other-session");
    o.bump("fault.replay.proof-in-other-session");
    o.events += 1;
    if r.accepted.is_some() {
        o.violate("proof-accepted-in-other-session", "PayProof", "a pay proof recorded in one session is accepted under the tuple of another session".into());
    }
}

fn verified(v: Verification) -> bool {
    matches!(v, Verification::Verified)
}

/// Closing messages of a seeded multi-channel history, re-assembled with one field substituted.
fn closing_substitutions(o: &mut Outcome, case: &Value) {
    let plan = plan_of(case);
    let rr = run_plan(&plan, o);
    keep(o, &["faulty-reply-accepted", "panic"]);
    let mut closes: Vec<(usize, Trace)> = Vec::new();
    for (i, c) in rr.chans.iter().enumerate() {
        if let Some(t) = &c.closing {
            closes.push((i, t.clone()));
        }
    }
    let mut s = Sched::new(plan.seed, "c06/closing");
    for (ci, t) in &closes {
        let m = merchant(&plan.merchants[rr.chans[*ci].merchant]);
        let check = |bytes: &[u8]| -> Option<bool> {
            let cm: za::customer::ClosingMessage = bincode::deserialize(bytes).ok()?;
            let (sig, st) = cm.into_parts();
            Some(verified(m.cfg.check_close_signature(sig, &st)))
        };
        if check(&t.bytes) != Some(true) {
            // the world already reported this (C03); nothing to substitute into
            continue;
        }
        o.bump("probe.closing_control_verified");
        let fields = ["close_state.channel_id", "close_state.revocation_lock", "close_state.merchant_balance", "close_state.customer_balance"];
        for f in fields {
            let i = match t.find(f) {
                Some(i) => i,
                None => crate::harness_error(&format!("C06: closing message has no field {}", f)),
            };
            let orig = t.atom_bytes(i).to_vec();
            let mut subs: Vec<(String, Vec<u8>)> = Vec::new();
            // the corresponding value of another channel / state
            for (cj, tj) in &closes {
                if cj != ci {
                    subs.push((format!("from-channel-{}", cj), tj.get(f).to_vec()));
                }
            }
            if orig.len() == 8 {
                let mut x = [0u8; 8];
                x.copy_from_slice(&orig);
                let v = u64::from_le_bytes(x);
                subs.push(("+1".into(), v.wrapping_add(1).to_le_bytes().to_vec()));
                if v > 0 {
                    subs.push(("-1".into(), (v - 1).to_le_bytes().to_vec()));
                }
                subs.push(("fresh".into(), (s.u64() >> 3).to_le_bytes().to_vec()));
            } else {
                let mut b = orig.clone();
                b[s.usize(31)] ^= 1 << s.usize(8);
                subs.push(("one-bit".into(), b));
                subs.push(("fresh".into(), refc::scb(&refc::rand_scalar(&mut s)).to_vec()));
            }
            // an earlier state's lock of the same channel
            if f.ends_with("revocation_lock") {
                for l in rr.chans[*ci].revealed_locks.iter() {
                    subs.push(("revoked-lock-of-same-channel".into(), l.to_vec()));
                }
            }
            for (what, sb) in subs {
                if sb == orig {
                    continue;
                }
                let mut t2 = t.clone();
                t2.set_atom(i, &sb);
                o.bump("fault.substitution.closing-message-field");
                o.events += 1;
                match check(&t2.bytes) {
                    Some(true) => o.violate(
                        "substituted-closing-message-accepted",
                        &format!("ClosingMessage/{}", f),
                        format!("channel {}: closing message with {} replaced ({}) passes the merchant's close check", ci, f, what),
                    ),
                    Some(false) => o.bump("probe.substituted_closing_refused"),
                    None => o.bump("probe.substituted_closing_refused_by_decoder"),
                }
            }
            // in-process: ClosingMessage::new under a zero re-randomiser (identity signature) over a
            // close state with the substituted field
            let mut t3 = t.clone();
            let mut b = orig.clone();
            if b.len() == 8 {
                let mut x = [0u8; 8];
                x.copy_from_slice(&b);
                b = (u64::from_le_bytes(x) ^ 1).to_le_bytes().to_vec();
            } else {
                b[0] ^= 1;
            }
            t3.set_atom(i, &b);
            if let Ok(cm) = bincode::deserialize::<za::customer::ClosingMessage>(&t3.bytes) {
                let (sig, st) = cm.into_parts();
                let mut f0 = BTreeMap::new();
                f0.insert(0usize, EntropyFault::Zeros);
                let mut z = SimRng::with_faults(plan.seed, "c06/zero-rerandomiser", f0);
                let cm0 = za::customer::ClosingMessage::new(&mut z, sig, st);
                let is_identity = atoms::trace(&cm0).bytes[..48] == refc::bad::g1_identity()[..];
                if is_identity {
                    o.bump("fault.entropy.zero-rerandomiser");
                }
                let (sig0, st0) = cm0.into_parts();
                o.events += 1;
                if verified(m.cfg.check_close_signature(sig0, &st0)) {
                    o.violate("substituted-closing-message-accepted", &format!("ClosingMessage/{}(identity-signature)", f), format!("channel {}: a closing message with the all-identity signature over a close state with {} altered passes the close check", ci, f));
                }
            }
        }
    }
}

impl Prop for C06 {
    fn id(&self) -> &'static str {
        "C06"
    }
    fn level(&self) -> &'static str {
        "exploration"
    }
    fn cases(&self, tier: Tier, seed: u64) -> CaseSet {
        let (ne, np, nc, nr) = match tier {
            Tier::Quick => (40, 12, 60, 60),
            Tier::Thorough => (2000, 600, 3000, 6000),
        };
        let mut v = Vec::new();
        for i in 0..ne {
            v.push(json!({"f": "establish", "seed": mix(&[seed, 0xC06, i as u64])}));
        }
        for i in 0..np {
            v.push(json!({"f": "pay", "seed": mix(&[seed, 0xC06B, i as u64]), "heavy": tier == Tier::Thorough}));
        }
        for i in 0..nc {
            let mut p = Profile::honest(false);
            p.channels = (2, 3);
            p.payments = (0, 2);
            p.random_stop = true;
            p.max_admissible = 1;
            p.merchants = vec!["9001".into()];
            p.wire = Some(i % 2 == 0);
            let mut c = case_of(&gen_plan(mix(&[seed, 0xC06C, i as u64]), &p), json!({}));
            c["f"] = json!("closing");
            v.push(c);
        }
        for i in 0..nr {
            // cross-session replay of recorded replies
            let mut p = Profile::byzantine();
            p.fault_free_pct = 0;
            p.reply_fault = (50, 100);
            p.lock_fault = (40, 100);
            let mut plan = gen_plan(mix(&[seed, 0xC06D, i as u64]), &p);
            let mut k = 0u64;
            fn to_replay(fs: &mut Vec<ReplyFault>, k: &mut u64) {
                for f in fs.iter_mut() {
                    *k += 1;
                    *f = ReplyFault::Replay { pick: *k * 7 };
                }
            }
            for c in plan.channels.iter_mut() {
                to_replay(&mut c.est_cs_faults, &mut k);
                to_replay(&mut c.est_pt_faults, &mut k);
                for p in c.payments.iter_mut() {
                    to_replay(&mut p.cs_faults, &mut k);
                    to_replay(&mut p.pt_faults, &mut k);
                    for lf in p.lock_faults.iter_mut() {
                        k += 1;
                        *lf = LockFault::ForeignPair { pick: k };
                    }
                }
            }
            let mut c = case_of(&plan, json!({}));
            c["f"] = json!("replay");
            v.push(c);
        }
        CaseSet { enumerated: v, random: 0, exhaustive: false }
    }
    fn random_case(&self, _tier: Tier, seed: u64, idx: usize) -> Value {
        json!({"f": "establish", "seed": mix(&[seed, idx as u64])})
    }
    fn run(&self, case: &Value) -> Outcome {
        let mut o = Outcome::default();
        let seed = case["seed"].as_u64().unwrap_or(0);
        match case["f"].as_str().unwrap_or("") {
            "establish" => establish_substitutions(&mut o, seed),
            "pay" => pay_substitutions(&mut o, seed, case["heavy"].as_bool().unwrap_or(false)),
            "closing" => {
                closing_substitutions(&mut o, case);
                o.nontrivial = true;
                return o;
            }
            "replay" => {
                let plan = plan_of(case);
                let _ = run_plan(&plan, &mut o);
                keep(&mut o, &["faulty-reply-accepted", "wrong-revocation-accepted", "refused-reply-changed-state", "panic"]);
                o.nontrivial = o.stats.get("probe.replay_had_material").cloned().unwrap_or(0) > 0;
                return o;
            }
            _ => crate::harness_error("C06: bad case family"),
        }
        o.bump(&format!("event.c06.{}", case["f"].as_str().unwrap_or("")));
        o.nontrivial = true;
        o.shape = mix(&[crate::hash_str(&case.to_string())]);
        o.log_hash = mix(&[o.shape, o.events, o.violations.len() as u64]);
        o
    }
    fn shrink(&self, case: &Value) -> Vec<Value> {
        match case["f"].as_str().unwrap_or("") {
            "closing" | "replay" => shrink_world_case(case),
            _ => Vec::new(),
        }
    }
    fn rule(&self) -> String {
        "four case families. establish / pay: an honest proof accepted by the real merchant under its own tuple is re-presented with exactly one verifier-side component replaced, by a fresh value and by near values: channel id fresh and with one bit flipped in every byte position, each balance +-1 / swapped / fresh, nonce fresh / one bit, amount +-1 / negated / 0 / fresh, context differing in one byte / in length / fresh, another merchant key, a key / revocation-parameter set differing in one element, range parameters fresh and with one digit signature re-randomised, and the whole tuple of another session. closing: the closing messages produced at every stop point of seeded multi-channel histories, re-encoded with one field (each balance, lock, channel id) replaced by the value of another channel / an already revoked lock / +-1 / one bit / fresh, plus ClosingMessage::new under a zero re-randomiser (identity signature) handed over in process. replay: histories in which every faulty reply is a recorded reply of another session / channel / payment and every wrong revocation a foreign pair. Distinct = distinct case; every case injects substitutions".into()
    }
    fn assumptions(&self) -> Vec<String> {
        vec!["replacement values are asserted different from the original before use".into(), "near configurations are built by replacing one atom of the encoding of the real key / parameters and decoding with the crates' own decoders".into()]
    }
    fn required_probes(&self, _tier: Tier) -> Vec<&'static str> {
        vec![
            "probe.establish_control_accepted",
            "probe.pay_control_accepted",
            "probe.closing_control_verified",
            "probe.substituted_tuple_refused",
            "probe.substituted_closing_refused",
            "fault.substitution.establish",
            "fault.substitution.pay",
            "fault.substitution.closing-message-field",
            "fault.entropy.zero-rerandomiser",
            "fault.replay.proof-in-other-session",
            "probe.replay_had_material",
            "probe.foreign_pair_had_material",
        ]
    }
}
