//! C02 — payment soundness: the real merchant `allow_payment` / `complete_payment` against a
//! Byzantine customer that holds a genuine pay token (obtained by running establishment itself,
//! so that it knows every scalar) and assembles pay proofs with the raw prover.

use crate::atoms::Trace;
use crate::driver::{CaseSet, Outcome, Prop, Tier};
use crate::forge::*;
use crate::mctx::{merchant, MerchantCtx};
use crate::refc::{self, Raw1, Raw2};
use crate::rng::{mix, Sched, SimRng};
use bls12_381::{G1Projective, Scalar};
use ff::Field;
use serde_json::{json, Value};
use zkabacus_crypto as za;

pub struct C02;

pub const VARIANTS: [&str; 46] = [
    "adaptive-negated-state",
    "adaptive-negated-close",
    "adaptive-negated-revlock",
    "algebraic-token-forgery",
    "close-foreign-channel-id",
    "state-foreign-channel-id",
    "adaptive-digit-response-customer",
    "adaptive-digit-response-merchant",
    "extra-digit-proofs",
    "fabricated-digit-signature",
    "compensating-shift-customer",
    "compensating-shift-merchant",
    "compensating-shift-lock",
    "close-merchant-balance-mismatch",
    "balance-just-above-2^63",
    "invalid-subproof-revlock",
    "invalid-subproof-state",
    "invalid-subproof-close",
    "invalid-subproof-token",
    "control",
    "wrong-nonce",
    "wrong-amount-customer",
    "wrong-amount-merchant",
    "negative-customer-balance",
    "merchant-balance-above-max",
    "foreign-channel-id",
    "close-tag-replaced",
    "old-lock-mismatch-linked",
    "old-lock-mismatch-unlinked",
    "new-lock-mismatch",
    "token-of-another-key",
    "tampered-token",
    "token-on-different-state",
    "digit-signature-for-another-digit",
    "digits-permuted",
    "all-maximal-digits",
    "close-balance-mismatch",
    "adaptive-nonce-double-spend",
    "adaptive-close-tag",
    "adaptive-T-state",
    "adaptive-T-close",
    "adaptive-T-revlock",
    "adaptive-C-state",
    "adaptive-C-close",
    "adaptive-T-digit",
    "sign-flipped-amount",
];

fn establish_raw(m: &'static MerchantCtx, seed: u64, cust: u64, merch: u64, s: &mut Sched, o: &mut Outcome) -> RawCustomer {
    let ag = fresh_agreed(m, s, cust, merch, "c02");
    let template = est_template(m, &ag, seed);
    let (lock, secret, index) = hash_lock(s);
    let nonce = refc::rand_scalar(s);
    let truth = Hidden::honest(&ag, nonce, lock);
    let d = est_draft_linked(m, &truth, s);
    let draft = assemble_est(&template, &d, None, &EstOverrides::default());
    let probe = present_establish(m, &ag, &draft, "c02/est/probe", seed);
    let c = probe.challenge.unwrap_or_else(|| crate::harness_error("C02: no challenge for establish draft"));
    let fin = assemble_est(&template, &d, Some(&c), &EstOverrides::default());
    let r = present_establish(m, &ag, &fin, "c02/est/final", seed);
    o.add("event.establish-proof-presented", 2);
    let (cs, vbs) = r.accepted.unwrap_or_else(|| crate::harness_error("C02: raw establishment of a true statement is refused (positive control; see C01/C04)"));
    let mut rng = SimRng::new(seed, "c02/est/activate");
    let pt = crate::atoms::encode(&m.cfg.activate(&mut rng, vbs));
    let token = refc::unblind(&refc::sig_from_bytes(&pt), &d.st.bf);
    let close_sig = refc::unblind(&refc::sig_from_bytes(&cs), &d.cl.bf);
    if !refc::ps_verify(&m.pk, &truth.st, &token.0, &token.1) || !refc::ps_verify(&m.pk, &truth.cl, &close_sig.0, &close_sig.1) {
        crate::harness_error("C02: signatures from raw establishment do not verify on the true state (positive control; see C01)");
    }
    RawCustomer { m, id: ag.id_scalar(), cid: ag.cid, cust, merch, state: truth.st, lock_secret: secret, lock_index: index, token, close_sig }
}

struct Presented {
    accepted: Option<(za::merchant::Unrevoked<'static>, Vec<u8>)>,
    rounds: usize,
}

/// probe -> adapt -> resubmit (up to three rounds) against the real `allow_payment`.
fn attack_pay(
    m: &'static MerchantCtx,
    amount: i64,
    nonce: &[u8],
    ctx: &[u8],
    draft: &[u8],
    build: &mut dyn FnMut(&Scalar) -> Vec<u8>,
    seed: u64,
    o: &mut Outcome,
) -> Presented {
    let probe = present_pay(m, amount, nonce, ctx, draft, seed, "c02/probe");
    o.bump("event.pay-draft-probe");
    if probe.panicked.is_some() {
        crate::harness_error("C02: allow_payment panicked on the forger's draft");
    }
    let mut c = match probe.challenge {
        Some(c) => c,
        None => crate::harness_error("C02: the forger's pay draft did not reach the challenge (layout drift?)"),
    };
    if probe.accepted.is_some() {
        return Presented { accepted: probe.accepted, rounds: 0 };
    }
    for round in 1..=3 {
        let bytes = build(&c);
        let r = present_pay(m, amount, nonce, ctx, &bytes, seed, &format!("c02/final/{}", round));
        o.bump("event.pay-proof-presented");
        if round > 1 {
            o.bump("probe.adaptive_round2_sent");
        }
        if r.accepted.is_some() {
            return Presented { accepted: r.accepted, rounds: round };
        }
        match r.challenge {
            Some(c2) if c2 != c => c = c2,
            _ => return Presented { accepted: None, rounds: round },
        }
    }
    Presented { accepted: None, rounds: 3 }
}

fn pair_bytes(lock: &Scalar, secret: &[u8; 32], index: u8) -> Vec<u8> {
    let mut b = refc::scb(lock).to_vec();
    b.extend_from_slice(secret);
    b.push(index);
    b
}

/// An honest raw payment; on success the raw customer moves to the new state.
fn pay_honest(rc: &mut RawCustomer, amount: i64, template: &Trace, s: &mut Sched, seed: u64, tag: &str, o: &mut Outcome) -> bool {
    let m = rc.m;
    let (mut h, (lock, secret, index), _nonce) = honest_pay_hidden(rc, amount, s);
    h.digits = digit_count(template);
    let d = pay_draft(m, &h, &rc.token, &PayKnobs::default(), s);
    let ctx = format!("c02-pay/{}/{}", tag, s.u64()).into_bytes();
    let shown = refc::scb(&rc.state[1]).to_vec();
    let draft = assemble_pay(template, &d, None, &PayOverrides::default());
    let mut build = |c: &Scalar| assemble_pay(template, &d, Some(c), &PayOverrides::default());
    let p = attack_pay(m, amount, &shown, &ctx, &draft, &mut build, seed, o);
    let (unrev, cs) = match p.accepted {
        Some(x) => x,
        None => return false,
    };
    // the closing signature must be on exactly old-balance -/+ amount
    if !unblinds_to_signature_on(m, &cs, &d.cl.bf, &h.new_cl) {
        o.violate("accepted-payment-signature-not-on-updated-close-state", "allow_payment/closing-signature", "the closing signature returned for a true payment does not unblind to a signature on the updated close state".into());
    }
    let mut wrong = h.new_cl;
    wrong[3] += Scalar::one();
    if unblinds_to_signature_on(m, &cs, &d.cl.bf, &wrong) {
        o.violate("closing-signature-ignores-slot", "allow_payment/closing-signature/slot3", "closing signature also verifies with another customer balance".into());
    }
    for (i, j) in [(3usize, 4usize), (2, 3), (0, 4), (1, 3)] {
        let mut w = h.new_cl;
        w[i] += Scalar::one();
        w[j] -= Scalar::one();
        if unblinds_to_signature_on(m, &cs, &d.cl.bf, &w) {
            o.violate("closing-signature-ignores-slot", &format!("allow_payment/closing-signature/slots{}+{}", i, j), "closing signature also verifies when value is moved between two slots".into());
        }
    }
    // the handed-back commitment commits to the OLD lock: a wrong pair is refused, the right one completes
    let mut rng = SimRng::new(seed, &format!("c02/complete/{}", tag));
    let (wl, ws, wi) = hash_lock(s);
    let wrong_pair: za::revlock::RevocationPair = bincode::deserialize(&pair_bytes(&wl, &ws, wi)).unwrap_or_else(|_| crate::harness_error("C02: crafted hash pair does not decode"));
    let bf: za::revlock::RevocationLockBlindingFactor = bincode::deserialize(&refc::scb(&d.revlock.bf)).unwrap_or_else(|_| crate::harness_error("C02: blinding factor does not decode"));
    let unrev = match unrev.complete_payment(&mut rng, &wrong_pair, &bf) {
        Ok(_) => {
            o.violate("wrong-revocation-accepted", "complete_payment/fresh-pair", "a pay token was issued for a pair that is not the old state's".into());
            return false;
        }
        Err(u) => u,
    };
    let right: za::revlock::RevocationPair = bincode::deserialize(&pair_bytes(&rc.state[2], &rc.lock_secret, rc.lock_index)).unwrap_or_else(|_| crate::harness_error("C02: own pair does not decode"));
    let tok = match unrev.complete_payment(&mut rng, &right, &bf) {
        Ok(t) => crate::atoms::encode(&t),
        Err(_) => {
            o.violate("lock-commitment-not-to-old-lock", "allow_payment/revocation-lock-commitment", "the commitment handed back by an accepted true payment does not open to the old state's lock".into());
            return false;
        }
    };
    let token = refc::unblind(&refc::sig_from_bytes(&tok), &d.st.bf);
    if !refc::ps_verify(&m.pk, &h.new_st, &token.0, &token.1) {
        o.violate("accepted-payment-signature-not-on-updated-state", "complete_payment/pay-token", "the pay token issued after a true payment does not unblind to a signature on the updated state".into());
        return false;
    }
    rc.cust = (rc.cust as i128 - amount as i128) as u64;
    rc.merch = (rc.merch as i128 + amount as i128) as u64;
    rc.state = h.new_st;
    rc.lock_secret = secret;
    rc.lock_index = index;
    rc.token = token;
    rc.close_sig = refc::unblind(&refc::sig_from_bytes(&cs), &d.cl.bf);
    let _ = lock;
    true
}

fn true_statement(rc: &RawCustomer, h: &PayHidden, shown_nonce: &Scalar, amount: i64) -> bool {
    let a = refc::amount_scalar(amount as i128);
    let in_range = |v: &Scalar| -> bool {
        // value < 2^63 as an integer
        let b = v.to_bytes();
        b[8..].iter().all(|x| *x == 0) && b[7] < 0x80
    };
    h.old == rc.state
        && h.old[1] == *shown_nonce
        && h.new_st[0] == h.old[0]
        && h.new_cl[0] == h.old[0]
        && h.new_cl[1] == refc::close_tag()
        && h.new_st[2] == h.new_cl[2]
        && h.new_st[3] == h.new_cl[3]
        && h.new_st[4] == h.new_cl[4]
        && h.new_st[3] == h.old[3] - a
        && h.new_st[4] == h.old[4] + a
        && in_range(&h.new_st[3])
        && in_range(&h.new_st[4])
        && h.old_lock_committed == h.old[2]
}

pub fn run_case(o: &mut Outcome, case: &Value) {
    let seed = case["seed"].as_u64().unwrap_or(0);
    let variant = case["variant"].as_str().unwrap_or("control").to_string();
    let mspec = case["mspec"].as_str().unwrap_or("9001");
    let m = merchant(mspec);
    let mut s = Sched::new(seed, "c02");
    let cust = case["cust"].as_u64().unwrap_or(500);
    let merch = case["merch"].as_u64().unwrap_or(40);
    let history = case["history"].as_u64().unwrap_or(0);
    let mut template = pay_template(7, mspec);
    let mut rc = establish_raw(m, seed, cust, merch, &mut s, o);

    // vary the history with honest raw payments; the last one is also the accept-the-truth control
    let mut amounts: Vec<i64> = Vec::new();
    for _ in 0..history {
        amounts.push(if s.chance(1, 3) && rc.merch > 0 { -((1 + s.below(rc.merch.min(50))) as i64) } else { (s.below(rc.cust.min(60) + 1)) as i64 });
    }
    let ctl: i64 = case["control_amount"].as_i64().unwrap_or(3).min(rc.cust as i64);
    amounts.push(ctl);
    for (k, a) in amounts.iter().enumerate() {
        // keep the honest payment admissible: both results within [0, 2^63-1]
        let room_c = (i64::MAX as u64 - rc.cust) as i64;
        let room_m = (i64::MAX as u64 - rc.merch) as i64;
        let a = (*a).min(rc.cust as i64).min(room_m).max(-(rc.merch as i64)).max(-room_c);
        if !pay_honest(&mut rc, a, &template, &mut s, seed, &format!("h{}", k), o) {
            if o.violations.is_empty() {
                // the library's own honest proof? (layout drift vs. broken completeness)
                crate::harness_error("C02 control: a raw-assembled true payment is refused by the merchant (forger layout drift, or honest payments fail: see C04)");
            }
            return;
        }
        o.bump("probe.control_accepted");
    }
    if variant == "control" {
        return;
    }

    // ---- the attack on the next payment
    o.nontrivial = true;
    let amount: i64 = case["amount"].as_i64().unwrap_or(5);
    let amount = if amount >= 0 {
        amount.min(rc.cust as i64).min((i64::MAX as u64 - rc.merch) as i64)
    } else {
        amount.max(-(rc.merch as i64)).max(-((i64::MAX as u64 - rc.cust) as i64))
    };
    let (mut h, _newlock, _nn) = honest_pay_hidden(&rc, amount, &mut s);
    let ndig = digit_count(&template);
    h.digits = ndig;
    let mut knobs = PayKnobs::default();
    let mut shown = rc.state[1];
    let mut token = rc.token;
    let mut present_amount = amount;
    let mut decoy: Option<(Scalar, [u8; 32], u8)> = None;
    let ctx = format!("c02-attack/{}", s.u64()).into_bytes();
    let site = variant.clone();
    o.bump(&format!("fault.byzantine.{}", if variant.starts_with("adaptive") { "adaptive-pay-field" } else { "false-pay-statement" }));
    let q_minus = |k: u64| -> Scalar { -Scalar::from(k) };
    match variant.as_str() {
        "wrong-nonce" => shown = refc::rand_scalar(&mut s),
        "wrong-amount-customer" => {
            if rc.cust as i128 - amount as i128 - 1 < 0 {
                return;
            }
            let nc = (rc.cust as i128 - amount as i128 - 1) as u64;
            h.new_st[3] = Scalar::from(nc);
            h.new_cl[3] = h.new_st[3];
            h.cust_range_value = nc as u128;
        }
        "wrong-amount-merchant" => {
            let nm = (rc.merch as i128 + amount as i128 + 1) as u64;
            h.new_st[4] = Scalar::from(nm);
            h.new_cl[4] = h.new_st[4];
            h.merch_range_value = nm as u128;
        }
        "negative-customer-balance" => {
            // pay more than the customer has: the new balance is q - k
            let over = rc.cust as i128 + 1 + s.below(1000) as i128;
            present_amount = over as i64;
            let k = (over - rc.cust as i128) as u64;
            h.new_st[3] = q_minus(k);
            h.new_cl[3] = h.new_st[3];
            h.new_st[4] = Scalar::from((rc.merch as i128 + over) as u64);
            h.new_cl[4] = h.new_st[4];
            h.cust_range_value = 0;
            h.merch_range_value = ((rc.merch as i128 + over) as u64 & (i64::MAX as u64)) as u128;
        }
        "merchant-balance-above-max" => {
            // refund more than the merchant has: the merchant balance goes negative (q - k)
            let over = rc.merch as i128 + 1 + s.below(1000) as i128;
            present_amount = -(over as i64);
            let k = (over - rc.merch as i128) as u64;
            h.new_st[4] = q_minus(k);
            h.new_cl[4] = h.new_st[4];
            h.new_st[3] = Scalar::from((rc.cust as i128 + over) as u64);
            h.new_cl[3] = h.new_st[3];
            h.merch_range_value = 0;
            h.cust_range_value = ((rc.cust as i128 + over) as u64 & (i64::MAX as u64)) as u128;
        }
        "foreign-channel-id" => {
            h.new_st[0] += Scalar::one();
            h.new_cl[0] += Scalar::one();
            knobs.unlink = if s.chance(1, 2) { Some("id-state") } else { None };
        }
        "close-foreign-channel-id" => {
            // only ONE of the two new messages carries another channel id
            h.new_cl[0] += Scalar::one() + Scalar::from(s.below(1000));
        }
        "state-foreign-channel-id" => {
            h.new_st[0] += Scalar::one() + Scalar::from(s.below(1000));
        }
        "algebraic-token-forgery" => {
            // the customer holds two merchant signatures on messages that differ in one slot only
            // (pay token: nonce, closing signature: close tag). If the merchant signed both with the
            // same exponent u, their difference gives Y_1^u and with it a token on the same state
            // under ANY nonce: the state is spent again under a nonce the merchant never signed.
            // (With independent exponents the derived element is noise and the token is refused.)
            let n2 = refc::rand_scalar(&mut s);
            let dn = rc.state[1] - refc::close_tag();
            let inv: Option<Scalar> = dn.invert().into();
            let y1u = (rc.token.1 - rc.close_sig.1) * inv.unwrap_or(Scalar::one());
            token = (rc.token.0, rc.token.1 + y1u * (n2 - rc.state[1]));
            h.old[1] = n2;
            shown = n2;
        }
        "close-tag-replaced" => h.new_cl[1] = refc::rand_scalar(&mut s),
        "old-lock-mismatch-linked" => {
            let l = hash_lock(&mut s);
            h.old_lock_committed = l.0;
            decoy = Some(l);
        }
        "old-lock-mismatch-unlinked" => {
            let l = hash_lock(&mut s);
            h.old_lock_committed = l.0;
            decoy = Some(l);
            knobs.unlink = Some("old-lock");
        }
        "new-lock-mismatch" => {
            h.new_cl[2] = hash_lock(&mut s).0;
            knobs.unlink = if s.chance(1, 2) { Some("new-lock") } else { None };
        }
        "token-of-another-key" => {
            let om = merchant(if mspec == "9001" { "9002" } else { "9001" });
            let hh = refc::rand_g1(&mut s);
            let mut e = om.sk.x;
            for (y, mi) in om.sk.ys.iter().zip(h.old.iter()) {
                e += y * mi;
            }
            token = (hh, hh * e);
        }
        "tampered-token" => token = (token.0, token.1 + G1Projective::generator()),
        "token-on-different-state" => {
            // claim an old state with an inflated customer balance
            h.old[3] += Scalar::from(1000u64);
            h.new_st[3] += Scalar::from(1000u64);
            h.new_cl[3] += Scalar::from(1000u64);
            h.cust_range_value = (h.cust_range_value + 1000) & (i64::MAX as u128);
        }
        "digit-signature-for-another-digit" => {
            let d = digits_of(h.cust_range_value, ndig);
            let mut so = d.clone();
            so[0] = (d[0] + 1) % 128;
            knobs.cust_sig_of = Some(so);
        }
        "digits-permuted" => {
            let mut d = digits_of(h.cust_range_value, ndig);
            d.swap(0, 1);
            if d == digits_of(h.cust_range_value, ndig) {
                d[0] = (d[0] + 1) % 128;
            }
            knobs.cust_digits_msg = Some(d.clone());
            knobs.cust_sig_of = Some(d);
        }
        "all-maximal-digits" => {
            knobs.cust_digits_msg = Some(vec![127; ndig]);
            knobs.cust_sig_of = Some(vec![127; ndig]);
        }
        "extra-digit-proofs" => {
            // if the wire format lets the prover choose how many digit proofs a range constraint
            // has (a length prefix instead of a fixed array), use 37 digits: enough for q - k
            let lp = "customer_balance_proof.digit_proofs.#len";
            if template.find(lp).is_none() {
                o.bump("probe.digit_count_fixed_by_wire_format");
                return;
            }
            let want = 37usize;
            let mut bytes = template.bytes.clone();
            // extend the later constraint first so that earlier offsets stay valid
            for name in ["merchant_balance_proof", "customer_balance_proof"] {
                let lenp = format!("{}.digit_proofs.#len", name);
                let li = match template.find(&lenp) {
                    Some(i) => i,
                    None => return,
                };
                let last = format!("{}.digit_proofs[{}]", name, ndig - 1);
                let idx: Vec<usize> = (0..template.atoms.len()).filter(|&i| template.atoms[i].path.starts_with(&last)).collect();
                let (a0, a1) = (template.atoms[idx[0]].off, template.atoms[*idx.last().unwrap()].off + template.atoms[*idx.last().unwrap()].len);
                let block = template.bytes[a0..a1].to_vec();
                let tail = bytes.split_off(a1);
                for _ in ndig..want {
                    bytes.extend_from_slice(&block);
                }
                bytes.extend_from_slice(&tail);
                let lo = template.atoms[li].off;
                bytes[lo..lo + 8].copy_from_slice(&(want as u64).to_le_bytes());
            }
            let extended: za::PayProof = match bincode::deserialize(&bytes) {
                Ok(p) => p,
                Err(_) => {
                    o.bump("probe.extended_pay_proof_does_not_decode");
                    return;
                }
            };
            template = crate::atoms::trace(&extended);
            let over = rc.cust as i128 + 1 + s.below(1000) as i128;
            present_amount = over.min(i64::MAX as i128) as i64;
            let k = (over - rc.cust as i128) as u64;
            let neg = q_minus(k);
            h.new_st[3] = neg;
            h.new_cl[3] = neg;
            h.new_st[4] = refc::int_scalar(rc.merch as i128 + over);
            h.new_cl[4] = h.new_st[4];
            h.digits = want;
            h.merch_range_value = ((rc.merch as i128 + over) as u128) & (i64::MAX as u128);
            // base-128 digits of the 255-bit integer q - k
            let nb = neg.to_bytes();
            let mut dg = vec![0u64; want];
            for (j, d) in dg.iter_mut().enumerate() {
                let mut v = 0u64;
                for b in 0..7 {
                    let bit = 7 * j + b;
                    if bit < 256 && (nb[bit / 8] >> (bit % 8)) & 1 == 1 {
                        v |= 1 << b;
                    }
                }
                *d = v;
            }
            knobs.cust_digits_msg = Some(dg.clone());
            knobs.cust_sig_of = Some(dg);
        }
        "fabricated-digit-signature" => {
            // if two published digit signatures share their base point, sigma2(b) - sigma2(a) is
            // h^(y*(b-a)) and a signature on ANY scalar "digit" can be fabricated: overspend with a
            // single digit carrying q - k
            let sigs = &m.range.sigs;
            let mut pair = None;
            'search: for a in 0..sigs.len() {
                for b in (a + 1)..sigs.len() {
                    if sigs[a].0 == sigs[b].0 {
                        pair = Some((a, b));
                        break 'search;
                    }
                }
            }
            let (a, b) = match pair {
                Some(p) => p,
                None => {
                    o.bump("probe.digit_signatures_have_distinct_bases");
                    return;
                }
            };
            let diff: Option<Scalar> = Scalar::from((b - a) as u64).invert().into();
            let hy = (sigs[b].1 - sigs[a].1) * diff.unwrap_or(Scalar::one());
            let over = rc.cust as i128 + 1 + s.below(1000) as i128;
            present_amount = over.min(i64::MAX as i128) as i64;
            let k = (over - rc.cust as i128) as u64;
            let neg = q_minus(k);
            // signature on digit `a` moved to "digit" neg: sigma2(a) + (neg - a) * h^y
            let forged = (sigs[a].0, sigs[a].1 + hy * (neg - Scalar::from(a as u64)));
            h.new_st[3] = neg;
            h.new_cl[3] = neg;
            h.new_st[4] = refc::int_scalar(rc.merch as i128 + over);
            h.new_cl[4] = h.new_st[4];
            h.cust_range_value = 0;
            h.merch_range_value = ((rc.merch as i128 + over) as u128) & (i64::MAX as u128);
            knobs.cust_digit0 = Some((neg, forged));
        }
        "close-merchant-balance-mismatch" => {
            // a fully correct state update, but another merchant balance in the close state only
            h.new_cl[4] = if s.chance(1, 2) { Scalar::zero() } else { h.new_cl[4] + Scalar::from(1000u64) };
            if h.new_cl[4] == h.new_st[4] {
                h.new_cl[4] += Scalar::one();
            }
            knobs.unlink = Some("close-merchant");
        }
        "balance-just-above-2^63" => {
            // a refund that takes the customer just past 2^63-1; the digits are those of the true
            // (out-of-range) value in as many digit proofs as the wire format holds
            let room = (i64::MAX as u64 - rc.cust) as i128;
            let over = room + 1 + s.below(20) as i128;
            present_amount = -(over.min(i64::MAX as i128) as i64);
            let nc = rc.cust as i128 + over;
            h.new_st[3] = refc::int_scalar(nc);
            h.new_cl[3] = h.new_st[3];
            let nm = rc.merch as i128 - over;
            h.new_st[4] = refc::int_scalar(nm);
            h.new_cl[4] = h.new_st[4];
            h.cust_range_value = nc as u128;
            h.merch_range_value = if nm >= 0 { nm as u128 } else { 0 };
        }
        "close-balance-mismatch" => {
            h.new_cl[3] += Scalar::from(1000u64);
            knobs.unlink = Some("close-customer");
        }
        "sign-flipped-amount" => {
            if amount == 0 {
                return;
            }
            present_amount = -amount;
        }
        _ => {}
    }

    let adaptive = variant.starts_with("adaptive");
    let mut accepted_false: Vec<(String, usize, String)> = Vec::new();
    if !adaptive {
        let d = pay_draft(m, &h, &token, &knobs, &mut s);
        let shown_b = refc::scb(&shown).to_vec();
        if !variant.starts_with("invalid-subproof") && !variant.starts_with("compensating-shift") && true_statement(&rc, &h, &shown, present_amount) && token == rc.token && knobs.cust_sig_of.is_none() && knobs.cust_digits_msg.is_none() && knobs.cust_digit0.is_none() {
            o.bump("probe.degenerate_variant_skipped");
            return;
        }
        // "invalid-subproof-*": the commitment of one sub-proof is to a false message while its
        // responses are those of the true one (the Schnorr equation of that sub-proof fails, every
        // cross-proof equation holds)
        let mk_ov = |d: &PayDraft| -> PayOverrides {
            let mut ov = PayOverrides::default();
            let thousand = Scalar::from(1000u64);
            match variant.as_str() {
                "invalid-subproof-revlock" => {
                    let c2 = refc::commit_g1(&m.rev_h, &[m.rev_g], &d.revlock.bf, &[d.revlock.m[0] + thousand]);
                    ov.g1.push(("old_revocation_lock_proof.commitment".into(), c2));
                }
                "invalid-subproof-state" | "invalid-subproof-close" => {
                    let (raw, pfx) = if variant == "invalid-subproof-state" { (&d.st, "state_proof.commitment_proof") } else { (&d.cl, "close_state_proof.commitment_proof") };
                    let mut mm = raw.m.clone();
                    mm[3] += thousand;
                    ov.g1.push((format!("{}.commitment", pfx), refc::commit_g1(&m.pk.g1, &m.pk.y1s, &raw.bf, &mm)));
                }
                "compensating-shift-customer" | "compensating-shift-merchant" | "compensating-shift-lock" => {
                    // state commits to value - delta, close state to value + delta in one slot;
                    // responses of the true statement: the two Schnorr errors cancel in a sum
                    let slot = match variant.as_str() {
                        "compensating-shift-customer" => 3,
                        "compensating-shift-merchant" => 4,
                        _ => 2,
                    };
                    let mut ms = d.st.m.clone();
                    let mut mc = d.cl.m.clone();
                    ms[slot] -= thousand;
                    mc[slot] += thousand;
                    ov.g1.push(("state_proof.commitment_proof.commitment".into(), refc::commit_g1(&m.pk.g1, &m.pk.y1s, &d.st.bf, &ms)));
                    ov.g1.push(("close_state_proof.commitment_proof.commitment".into(), refc::commit_g1(&m.pk.g1, &m.pk.y1s, &d.cl.bf, &mc)));
                }
                "invalid-subproof-token" => {
                    let mut mm = d.token.m.clone();
                    mm[3] += thousand;
                    ov.g2.push(("old_pay_token_proof.commitment_proof.scalar_commitment".into(), refc::commit_g2(&m.pk.g2, &m.pk.y2s, &d.token.s_bf, &mm)));
                }
                _ => {}
            }
            ov
        };
        let invalid_subproof = variant.starts_with("invalid-subproof") || variant.starts_with("compensating-shift");
        let draft = assemble_pay(&template, &d, None, &mk_ov(&d));
        let mut build = |c: &Scalar| assemble_pay(&template, &d, Some(c), &mk_ov(&d));
        let p = attack_pay(m, present_amount, &shown_b, &ctx, &draft, &mut build, seed, o);
        if let (true, Some(_)) = (invalid_subproof, &p.accepted) {
            o.violate("invalid-subproof-accepted", &site, format!("a pay proof whose sub-proof(s) do not satisfy their own Schnorr equation was accepted (variant {})", variant));
            return;
        }
        if let Some((u, cs)) = p.accepted {
            let ok = unblinds_to_signature_on(m, &cs, &d.cl.bf, &h.new_cl);
            let mut ev = format!("closing signature unblinds to a valid signature on the prover's hidden close state: {}", ok);
            if variant.starts_with("old-lock-mismatch") {
                // the commitment handed back is to a decoy lock: can the payment be completed
                // without ever revoking the old state?
                let decoy_bf: za::revlock::RevocationLockBlindingFactor = bincode::deserialize(&refc::scb(&d.revlock.bf)).unwrap_or_else(|_| crate::harness_error("bf"));
                if let Some((dl, ds, di)) = decoy.as_ref() {
                    if let Ok(pair) = bincode::deserialize::<za::revlock::RevocationPair>(&pair_bytes(dl, ds, *di)) {
                        let mut rng = SimRng::new(seed, "c02/decoy/complete");
                        if u.complete_payment(&mut rng, &pair, &decoy_bf).is_ok() {
                            ev.push_str("; complete_payment then issued a pay token for a decoy revocation pair: the old state was never revoked");
                            o.violate("pay-token-without-revocation-of-old-state", &site, "a pay token was issued although the revocation pair of the old state was never presented".into());
                        }
                    }
                }
            }
            accepted_false.push((site.clone(), p.rounds, ev));
        }
    } else {
        match variant.as_str() {
            "adaptive-nonce-double-spend" => {
                // one token, two made-up nonces: the revealed nonce scalar is chosen after the challenge
                let mut acc = 0;
                for k in 0..2 {
                    let made_up = refc::rand_scalar(&mut s);
                    let (mut h2, _, _) = honest_pay_hidden(&rc, amount, &mut s);
                    h2.digits = ndig;
                    let d = pay_draft(m, &h2, &rc.token, &PayKnobs::default(), &mut s);
                    let ctx2 = format!("c02-double/{}/{}", k, s.u64()).into_bytes();
                    let draft = assemble_pay(&template, &d, None, &PayOverrides::default());
                    let mut build = |c: &Scalar| {
                        let (_, z) = d.token.respond(c);
                        let mut ov = PayOverrides::default();
                        ov.sc.push(("old_nonce_commitment_scalar".into(), z[1] - c * made_up));
                        assemble_pay(&template, &d, Some(c), &ov)
                    };
                    let p = attack_pay(m, amount, &refc::scb(&made_up), &ctx2, &draft, &mut build, seed, o);
                    if let Some((_u, cs)) = p.accepted {
                        acc += 1;
                        let ok = unblinds_to_signature_on(m, &cs, &d.cl.bf, &h2.new_cl);
                        accepted_false.push(("adaptive/old_nonce_commitment_scalar".into(), p.rounds, format!("pay token accepted under made-up nonce #{}; closing signature valid on the new close state: {}", k + 1, ok)));
                    }
                }
                if acc == 2 {
                    o.violate("double-spend", "adaptive/old_nonce_commitment_scalar", "one pay token was accepted twice under two different made-up nonces".into());
                }
            }
            "adaptive-close-tag" => {
                h.new_cl[1] = refc::rand_scalar(&mut s);
                let d = pay_draft(m, &h, &rc.token, &PayKnobs::default(), &mut s);
                let draft = assemble_pay(&template, &d, None, &PayOverrides::default());
                let mut build = |c: &Scalar| {
                    let (_, z) = d.cl.respond(c);
                    let mut ov = PayOverrides::default();
                    ov.sc.push(("close_tag_commitment_scalar".into(), z[1] - c * refc::close_tag()));
                    assemble_pay(&template, &d, Some(c), &ov)
                };
                let p = attack_pay(m, amount, &refc::scb(&shown), &ctx, &draft, &mut build, seed, o);
                if let Some((_u, cs)) = p.accepted {
                    let ok = unblinds_to_signature_on(m, &cs, &d.cl.bf, &h.new_cl);
                    accepted_false.push(("adaptive/close_tag_commitment_scalar".into(), p.rounds, format!("closing signature valid on a close state without the close tag: {}", ok)));
                }
            }
            "adaptive-T-state" | "adaptive-T-close" | "adaptive-T-revlock" => {
                // one sub-proof simulated: commitment to a false message, responses of the true
                // statement, T := Com(z) - c*C chosen after the challenge
                let dt = pay_draft(m, &h, &rc.token, &PayKnobs::default(), &mut s);
                let (prefix, gens_h, gens, true_raw): (&str, G1Projective, Vec<G1Projective>, &Raw1) = match variant.as_str() {
                    "adaptive-T-state" => ("state_proof.commitment_proof", m.pk.g1, m.pk.y1s.clone(), &dt.st),
                    "adaptive-T-close" => ("close_state_proof.commitment_proof", m.pk.g1, m.pk.y1s.clone(), &dt.cl),
                    _ => ("old_revocation_lock_proof", m.rev_h, vec![m.rev_g], &dt.revlock),
                };
                let mut false_msg = true_raw.m.clone();
                let slot = if false_msg.len() == 1 { 0 } else { 3 };
                false_msg[slot] += Scalar::from(1000u64);
                let c_false = refc::commit_g1(&gens_h, &gens, &true_raw.bf, &false_msg);
                let zbf = refc::rand_scalar(&mut s);
                let mut ov0 = PayOverrides::default();
                ov0.g1.push((format!("{}.commitment", prefix), c_false));
                let draft = assemble_pay(&template, &dt, None, &ov0);
                let mut build = |c: &Scalar| {
                    let (_, z) = true_raw.respond(c);
                    let t = refc::commit_g1(&gens_h, &gens, &zbf, &z) - c_false * c;
                    let mut ov = PayOverrides::default();
                    ov.g1.push((format!("{}.commitment", prefix), c_false));
                    ov.g1.push((format!("{}.scalar_commitment", prefix), t));
                    ov.sc.push((format!("{}.blinding_factor_response_scalar", prefix), zbf));
                    assemble_pay(&template, &dt, Some(c), &ov)
                };
                let p = attack_pay(m, amount, &refc::scb(&shown), &ctx, &draft, &mut build, seed, o);
                if let Some((_u, cs)) = p.accepted {
                    let mut ev = String::new();
                    if variant == "adaptive-T-close" {
                        let ok = unblinds_to_signature_on(m, &cs, &true_raw.bf, &false_msg);
                        ev = format!("closing signature valid on a close state with customer balance + 1000: {}", ok);
                    }
                    accepted_false.push((format!("adaptive/{}.scalar_commitment", prefix), p.rounds, ev));
                }
            }
            "adaptive-C-state" | "adaptive-C-close" => {
                let on_state = variant == "adaptive-C-state";
                let dt = pay_draft(m, &h, &rc.token, &PayKnobs::default(), &mut s);
                let base = if on_state { &dt.st } else { &dt.cl };
                let prefix = if on_state { "state_proof.commitment_proof" } else { "close_state_proof.commitment_proof" };
                let delta = Scalar::from(1 + s.below(5000));
                let mut sv = base.s.clone();
                sv[3] -= delta;
                let pre = Raw1::new(m.pk.g1, m.pk.y1s.clone(), base.m.clone(), base.bf, base.s_bf, sv.clone());
                let mut ov0 = PayOverrides::default();
                ov0.g1.push((format!("{}.scalar_commitment", prefix), pre.t));
                let draft = assemble_pay(&template, &dt, None, &ov0);
                let mut last_msg = pre.m.clone();
                let mut build = |c: &Scalar| {
                    let cinv: Option<Scalar> = c.invert().into();
                    let mut mm = pre.m.clone();
                    mm[3] += delta * cinv.unwrap_or(Scalar::one());
                    last_msg = mm.clone();
                    let ad = Raw1::new(m.pk.g1, m.pk.y1s.clone(), mm, pre.bf, pre.s_bf, sv.clone());
                    let (zbf, z) = ad.respond(c);
                    let mut ov = PayOverrides::default();
                    ov.g1.push((format!("{}.commitment", prefix), ad.c));
                    ov.g1.push((format!("{}.scalar_commitment", prefix), ad.t));
                    ov.sc.push((format!("{}.blinding_factor_response_scalar", prefix), zbf));
                    for (i, zi) in z.iter().enumerate() {
                        ov.sc.push((format!("{}.message_response_scalars[{}]", prefix, i), *zi));
                    }
                    assemble_pay(&template, &dt, Some(c), &ov)
                };
                let p = attack_pay(m, amount, &refc::scb(&shown), &ctx, &draft, &mut build, seed, o);
                if let Some((_u, cs)) = p.accepted {
                    let ev = if on_state { String::new() } else { format!("closing signature valid on the prover's adapted close state: {}", unblinds_to_signature_on(m, &cs, &pre.bf, &last_msg)) };
                    accepted_false.push((format!("adaptive/{}.commitment", prefix), p.rounds, ev));
                }
            }
            "adaptive-T-digit" => {
                // overspend: new customer balance q - k, carried by a simulated digit proof whose
                // response is that of "digit" q - k while its commitment is to digit 0
                let over = rc.cust as i128 + 1 + s.below(1000) as i128;
                let k = (over - rc.cust as i128) as u64;
                let neg = q_minus(k);
                let mut hh = h.clone();
                hh.new_st[3] = neg;
                hh.new_cl[3] = neg;
                hh.new_st[4] = Scalar::from((rc.merch as i128 + over) as u64);
                hh.new_cl[4] = hh.new_st[4];
                hh.cust_range_value = 0;
                hh.merch_range_value = (((rc.merch as i128 + over) as u64) & (i64::MAX as u64)) as u128;
                let dt = pay_draft(m, &hh, &rc.token, &PayKnobs::default(), &mut s);
                let draft = assemble_pay(&template, &dt, None, &PayOverrides::default());
                let d0: &Raw2 = &dt.cust_range.digits[0].raw;
                let zbf = refc::rand_scalar(&mut s);
                let pfx = "customer_balance_proof.digit_proofs[0].commitment_proof";
                let mut build = |c: &Scalar| {
                    let z0 = c * neg + d0.s[0];
                    let t = refc::commit_g2(&d0.h, &d0.gs, &zbf, &[z0]) - d0.c * c;
                    let mut ov = PayOverrides::default();
                    ov.g2.push((format!("{}.scalar_commitment", pfx), t));
                    ov.sc.push((format!("{}.blinding_factor_response_scalar", pfx), zbf));
                    ov.sc.push((format!("{}.message_response_scalars[0]", pfx), z0));
                    assemble_pay(&template, &dt, Some(c), &ov)
                };
                let p = attack_pay(m, over as i64, &refc::scb(&shown), &ctx, &draft, &mut build, seed, o);
                if let Some((_u, cs)) = p.accepted {
                    let ok = unblinds_to_signature_on(m, &cs, &dt.cl.bf, &hh.new_cl);
                    accepted_false.push((format!("adaptive/{}.scalar_commitment", "customer_balance_proof.digit_proofs[].commitment_proof"), p.rounds, format!("closing signature valid on a close state with a negative customer balance: {}", ok)));
                }
            }
            "adaptive-negated-state" | "adaptive-negated-close" | "adaptive-negated-revlock" => {
                // the honest proof of the TRUE statement with C and T of one sub-proof replaced by
                // their inverses: every opening equation of that sub-proof holds up to sign only;
                // if accepted, the merchant signs (or keeps as revocation commitment) the negated
                // message
                let dt = pay_draft(m, &h, &rc.token, &PayKnobs::default(), &mut s);
                let (prefix, raw): (&str, &Raw1) = match variant.as_str() {
                    "adaptive-negated-state" => ("state_proof.commitment_proof", &dt.st),
                    "adaptive-negated-close" => ("close_state_proof.commitment_proof", &dt.cl),
                    _ => ("old_revocation_lock_proof", &dt.revlock),
                };
                let mk = |c: Option<&Scalar>| {
                    let mut ov = PayOverrides::default();
                    ov.g1.push((format!("{}.commitment", prefix), -raw.c));
                    ov.g1.push((format!("{}.scalar_commitment", prefix), -raw.t));
                    assemble_pay(&template, &dt, c, &ov)
                };
                let draft = mk(None);
                let mut build = |c: &Scalar| mk(Some(c));
                let p = attack_pay(m, amount, &refc::scb(&shown), &ctx, &draft, &mut build, seed, o);
                if let Some((_u, cs)) = p.accepted {
                    let neg: Vec<Scalar> = dt.cl.m.iter().map(|x| -*x).collect();
                    let ev = if variant == "adaptive-negated-close" { format!("closing signature valid on the negated close state: {}", unblinds_to_signature_on(m, &cs, &(-dt.cl.bf), &neg)) } else { String::new() };
                    accepted_false.push((format!("negated/{}", prefix), p.rounds, ev));
                }
            }
            "adaptive-digit-response-customer" | "adaptive-digit-response-merchant" => {
                // overspend (or over-refund): the new balance of one side is q - k. Its range
                // constraint is built for 0, every digit proof is valid except ONE, whose response is
                // set after the challenge so that the digits still add up to the balance's response:
                // accepted only by a verifier that skips that digit proof (a dropped remainder, an
                // off-by-one bound, a short zip)
                let on_cust = variant == "adaptive-digit-response-customer";
                let j = (case["digit"].as_u64().unwrap_or(0) as usize) % ndig;
                let base = if on_cust { rc.cust } else { rc.merch } as i128;
                let over = base + 1 + s.below(1000) as i128;
                let k = (over - base) as u64;
                let neg = q_minus(k);
                let mut hh = h.clone();
                let other = ((if on_cust { rc.merch } else { rc.cust }) as i128 + over) as u64;
                if on_cust {
                    hh.new_st[3] = neg;
                    hh.new_st[4] = Scalar::from(other);
                    hh.cust_range_value = 0;
                    hh.merch_range_value = (other & (i64::MAX as u64)) as u128;
                } else {
                    hh.new_st[4] = neg;
                    hh.new_st[3] = Scalar::from(other);
                    hh.merch_range_value = 0;
                    hh.cust_range_value = (other & (i64::MAX as u64)) as u128;
                }
                hh.new_cl[3] = hh.new_st[3];
                hh.new_cl[4] = hh.new_st[4];
                let dt = pay_draft(m, &hh, &rc.token, &PayKnobs::default(), &mut s);
                let draft = assemble_pay(&template, &dt, None, &PayOverrides::default());
                let dj: &Raw2 = if on_cust { &dt.cust_range.digits[j].raw } else { &dt.merch_range.digits[j].raw };
                let pfx = format!("{}.digit_proofs[{}].commitment_proof", if on_cust { "customer_balance_proof" } else { "merchant_balance_proof" }, j);
                let mut w = Scalar::one();
                for _ in 0..j {
                    w *= Scalar::from(128u64);
                }
                let winv: Scalar = Option::<Scalar>::from(w.invert()).unwrap_or_else(|| crate::harness_error("C02: digit weight not invertible"));
                let mut build = |c: &Scalar| {
                    let zj = c * dj.m[0] + dj.s[0] + c * neg * winv;
                    let mut ov = PayOverrides::default();
                    ov.sc.push((format!("{}.message_response_scalars[0]", pfx), zj));
                    assemble_pay(&template, &dt, Some(c), &ov)
                };
                let amt = if on_cust { over as i64 } else { -(over as i64) };
                let p = attack_pay(m, amt, &refc::scb(&shown), &ctx, &draft, &mut build, seed, o);
                if let Some((_u, cs)) = p.accepted {
                    let ok = unblinds_to_signature_on(m, &cs, &dt.cl.bf, &hh.new_cl);
                    accepted_false.push((format!("adaptive/{}.digit_proofs[{}].response", if on_cust { "customer_balance_proof" } else { "merchant_balance_proof" }, j), p.rounds, format!("closing signature valid on a close state with a negative {} balance: {}", if on_cust { "customer" } else { "merchant" }, ok)));
                }
            }
            _ => crate::harness_error("C02: unknown adaptive variant"),
        }
    }
    if accepted_false.is_empty() {
        o.bump("probe.attack_refused");
    }
    for (st, rounds, ev) in accepted_false {
        o.violate(
            "false-payment-accepted",
            &st,
            format!("allow_payment accepted in round {} a pay proof for a false statement (variant {}; balances ({}, {}), amount {}); {}", rounds, variant, rc.cust, rc.merch, present_amount, ev),
        );
    }
}

impl Prop for C02 {
    fn id(&self) -> &'static str {
        "C02"
    }
    fn level(&self) -> &'static str {
        "exploration"
    }
    fn cases(&self, tier: Tier, seed: u64) -> CaseSet {
        let reps = match tier {
            Tier::Quick => 3,
            Tier::Thorough => 500,
        };
        let mut v = Vec::new();
        let mut sch = Sched::new(seed, "c02/cases");
        for rep in 0..reps {
            for name in VARIANTS.iter() {
                let (mut cust, mut merch) = if rep == 0 { (500, 40) } else { (1 + (sch.u64() >> (2 + sch.usize(50))), sch.u64() >> (2 + sch.usize(50))) };
                if *name == "balance-just-above-2^63" {
                    cust = (1u64 << 63) - 6 - sch.below(100);
                    merch = 300 + sch.below(1000);
                }
                let amount: i64 = match sch.usize(5) {
                    0 => 0,
                    1 => -((1 + sch.below(merch.max(1).min(1000))) as i64),
                    _ => (1 + sch.below(cust.min(1000))) as i64,
                };
                // the one-unverified-digit forgeries: every digit position in the first repetition,
                // a drawn one afterwards
                let digits: Vec<u64> = if !name.starts_with("adaptive-digit-response") {
                    vec![0]
                } else if rep == 0 {
                    (0..9).collect()
                } else {
                    vec![sch.below(9)]
                };
                for dg in digits {
                    v.push(json!({"seed": mix(&[seed, 0xC02, rep as u64, crate::hash_str(name), dg]), "variant": name, "cust": cust, "merch": merch,
                                  "amount": amount, "history": if rep == 0 { 0 } else { sch.usize(2) }, "control_amount": sch.below(4), "digit": dg,
                                  "mspec": if rep % 3 == 2 { "9002" } else { "9001" }}));
                }
            }
        }
        CaseSet { enumerated: v, random: 0, exhaustive: false }
    }
    fn random_case(&self, _tier: Tier, seed: u64, idx: usize) -> Value {
        json!({"seed": mix(&[seed, idx as u64]), "variant": "control", "cust": 500, "merch": 40, "amount": 5, "history": 0, "mspec": "9001"})
    }
    fn run(&self, case: &Value) -> Outcome {
        let mut o = Outcome::default();
        run_case(&mut o, case);
        o.events = o.stats.iter().filter(|(k, _)| k.starts_with("event.")).map(|(_, v)| *v).sum();
        o.shape = mix(&[crate::hash_str(&case.to_string())]);
        o.log_hash = mix(&[o.shape, o.events, o.violations.len() as u64]);
        o
    }
    fn shrink(&self, case: &Value) -> Vec<Value> {
        let mut v = Vec::new();
        if case["history"].as_u64().unwrap_or(0) > 0 {
            let mut c = case.clone();
            c["history"] = json!(0);
            v.push(c);
        }
        if case["cust"] != 500 || case["merch"] != 40 {
            let mut c = case.clone();
            c["cust"] = json!(500);
            c["merch"] = json!(40);
            c["amount"] = json!(5);
            v.push(c);
        }
        v
    }
    fn rule(&self) -> String {
        "one case = one Byzantine customer session against the real merchant: raw establishment (so the actor knows every scalar), 0-2 honest raw payments to vary the history, one more honest raw payment as accept-the-truth control (closing signature must be on old-balance -/+ amount, a foreign revocation pair must be refused and the right one must complete it), then one variant of the false pay statement: wrong nonce, a token for another nonce derived algebraically from the pay token and the closing signature of the same state (valid iff the merchant re-used its signing exponent), another channel id in only one of the two new messages, wrong amount on either balance, negative / above-range balance, foreign channel id, close tag replaced, old-lock commitment to another lock (linked and unlinked), new lock mismatch, token of another key / tampered / on a different state, digit signature for another digit, digits permuted, all-maximal digits, a digit signature fabricated from two published ones that share a base point (when the parameters allow it), 37 digit proofs instead of 9 (when the wire format has a length prefix there), close balance mismatch, sign-flipped amount; or post-challenge choice (probe -> hook -> adapt -> resubmit, up to three rounds) of the revealed nonce scalar (twice on one token: double spend), the close-tag scalar, T of the state / close / lock proof, C of the state / close proof, T of a digit proof (overspend), C and T of one sub-proof negated, the response of ONE digit proof at each digit position of either balance (a negative balance whose other digit proofs are all valid). Distinct = distinct (variant, balances, amount, history, seed); non-trivial = an attack was run".into()
    }
    fn assumptions(&self) -> Vec<String> {
        vec![
            "soundness is checked against the named forger family, not all provers".into(),
            "the forger fills proof fields by path into the layout of a library-produced pay proof; the accept-the-truth control in every case guards that layout".into(),
            "challenge observed through the verif-hooks challenge recorder".into(),
        ]
    }
    fn required_probes(&self, _tier: Tier) -> Vec<&'static str> {
        vec!["probe.control_accepted", "probe.attack_refused", "fault.byzantine.adaptive-pay-field", "fault.byzantine.false-pay-statement"]
    }
    fn default_budget_s(&self, tier: Tier) -> u64 {
        match tier {
            Tier::Quick => 150,
            Tier::Thorough => 1500,
        }
    }
}
