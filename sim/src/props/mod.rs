use crate::driver::Prop;

pub mod c15;
pub mod c16;
pub mod c19;
pub mod world_props;

pub fn all() -> Vec<Box<dyn Prop>> {
    vec![
        Box::new(world_props::C03),
        Box::new(world_props::C04),
        Box::new(world_props::C05),
        Box::new(world_props::C14),
        Box::new(c15::C15),
        Box::new(c16::C16),
        Box::new(c19::C19),
        Box::new(world_props::C20),
    ]
}
