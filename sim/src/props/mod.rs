use crate::driver::Prop;

pub mod c01;
pub mod c02;
pub mod c06;
pub mod c12;
pub mod c15;
pub mod c16;
pub mod c17;
pub mod c18;
pub mod c19;
pub mod world_props;

pub fn all() -> Vec<Box<dyn Prop>> {
    vec![
        Box::new(c01::C01),
        Box::new(c02::C02),
        Box::new(world_props::C03),
        Box::new(world_props::C04),
        Box::new(world_props::C05),
        Box::new(world_props::C14),
        Box::new(c06::C06),
        Box::new(c12::C12),
        Box::new(c15::C15),
        Box::new(c16::C16),
        Box::new(c17::C17),
        Box::new(c18::C18),
        Box::new(c19::C19),
        Box::new(world_props::C20),
    ]
}
