use crate::driver::Prop;

pub mod c19;

pub fn all() -> Vec<Box<dyn Prop>> {
    vec![Box::new(c19::C19)]
}
pub mod c16 {
    pub fn worker_main() -> i32 {
        2
    }
}
