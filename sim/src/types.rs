//! Registry of every decodable type of both crates (plus the public element codecs), with
//! monomorphised decode functions, so that wire/storage faults can be applied uniformly.

use serde::{de::DeserializeOwned, Deserialize, Serialize};
use std::io::Read;
use zkchannels_crypto::SerializeElement;

pub type DecodeFn = fn(&[u8]) -> Result<Vec<u8>, String>;
pub type DecodeFromFn = fn(&mut dyn Read) -> Result<Vec<u8>, String>;

#[derive(Clone)]
pub struct TypeEntry {
    pub name: String,
    pub size_of: usize,
    /// `bincode::deserialize`, then re-encode the decoded value.
    pub decode: DecodeFn,
    /// `bincode::deserialize_from` a reader, then re-encode.
    pub decode_from: DecodeFromFn,
    /// bincode bytes -> value -> JSON text (another serde format: human-readable)
    pub to_json: DecodeFn,
    /// `serde_json::from_slice`, then re-encode as JSON
    pub decode_json: DecodeFn,
}

fn dec<T: Serialize + DeserializeOwned>(b: &[u8]) -> Result<Vec<u8>, String> {
    match bincode::deserialize::<T>(b) {
        Ok(v) => bincode::serialize(&v).map_err(|e| format!("re-encode failed: {}", e)),
        Err(e) => Err(e.to_string()),
    }
}
fn dec_from<T: Serialize + DeserializeOwned>(r: &mut dyn Read) -> Result<Vec<u8>, String> {
    match bincode::deserialize_from::<_, T>(r) {
        Ok(v) => bincode::serialize(&v).map_err(|e| format!("re-encode failed: {}", e)),
        Err(e) => Err(e.to_string()),
    }
}

fn to_json<T: Serialize + DeserializeOwned>(b: &[u8]) -> Result<Vec<u8>, String> {
    match bincode::deserialize::<T>(b) {
        Ok(v) => serde_json::to_vec(&v).map_err(|e| e.to_string()),
        Err(e) => Err(e.to_string()),
    }
}
fn dec_json<T: Serialize + DeserializeOwned>(b: &[u8]) -> Result<Vec<u8>, String> {
    match serde_json::from_slice::<T>(b) {
        Ok(v) => serde_json::to_vec(&v).map_err(|e| e.to_string()),
        Err(e) => Err(e.to_string()),
    }
}

pub fn entry<T: Serialize + DeserializeOwned>(name: &str) -> TypeEntry {
    TypeEntry {
        name: name.to_string(),
        size_of: std::mem::size_of::<T>(),
        decode: dec::<T>,
        decode_from: dec_from::<T>,
        to_json: to_json::<T>,
        decode_json: dec_json::<T>,
    }
}

/// Wrappers exposing the public element codecs (`SerializeElement` for `Vec<G>`, `[G; N]`,
/// `Box<[G; N]>`) as ordinary serde types.
#[derive(Serialize, Deserialize)]
#[serde(bound = "G: SerializeElement")]
pub struct VecOf<G: SerializeElement>(#[serde(with = "SerializeElement")] pub Vec<G>);
#[derive(Serialize, Deserialize)]
#[serde(bound = "G: SerializeElement")]
pub struct ArrOf<G: SerializeElement, const N: usize>(#[serde(with = "SerializeElement")] pub [G; N]);
#[derive(Serialize, Deserialize)]
#[serde(bound = "G: SerializeElement")]
pub struct BoxArrOf<G: SerializeElement, const N: usize>(#[serde(with = "SerializeElement")] pub Box<[G; N]>);
#[derive(Serialize, Deserialize)]
#[serde(bound = "G: SerializeElement")]
pub struct One<G: SerializeElement>(#[serde(with = "SerializeElement")] pub G);

pub struct Registry {
    pub types: Vec<TypeEntry>,
}

impl Registry {
    pub fn index(&self, name: &str) -> usize {
        match self.types.iter().position(|t| t.name == name) {
            Some(i) => i,
            None => crate::harness_error(&format!("type `{}` is not registered", name)),
        }
    }
    pub fn get(&self, name: &str) -> &TypeEntry {
        &self.types[self.index(name)]
    }
}

macro_rules! for_ns {
    ($m:ident) => {
        $m!(1);
        $m!(2);
        $m!(3);
        $m!(5);
        $m!(8);
        $m!(13);
    };
}

pub fn registry() -> &'static Registry {
    static REG: std::sync::OnceLock<Registry> = std::sync::OnceLock::new();
    REG.get_or_init(build)
}

fn build() -> Registry {
    use bls12_381::{G1Affine, G1Projective, G2Affine, G2Projective, Scalar};
    use zkabacus_crypto as za;
    use zkchannels_crypto::{pedersen::*, pointcheval_sanders::*, proofs::*, BlindingFactor};
    let mut t: Vec<TypeEntry> = Vec::new();
    macro_rules! reg {
        ($ty:ty, $name:expr) => {
            t.push(entry::<$ty>(&$name));
        };
    }
    // --- element codecs
    reg!(One<Scalar>, "Scalar");
    reg!(One<G1Affine>, "G1Affine");
    reg!(One<G1Projective>, "G1Projective");
    reg!(One<G2Affine>, "G2Affine");
    reg!(One<G2Projective>, "G2Projective");
    reg!(VecOf<Scalar>, "Vec<Scalar>");
    reg!(VecOf<G1Projective>, "Vec<G1>");
    reg!(VecOf<G2Affine>, "Vec<G2>");
    macro_rules! per_n_codec {
        ($n:literal) => {
            reg!(ArrOf<Scalar, $n>, format!("[Scalar;{}]", $n));
            reg!(ArrOf<G1Affine, $n>, format!("[G1;{}]", $n));
            reg!(BoxArrOf<G2Projective, $n>, format!("Box<[G2;{}]>", $n));
            reg!(BoxArrOf<Scalar, $n>, format!("Box<[Scalar;{}]>", $n));
        };
    }
    for_ns!(per_n_codec);
    // --- zkchannels-crypto
    reg!(Commitment<G1Projective>, "Commitment<G1>");
    reg!(Commitment<G2Projective>, "Commitment<G2>");
    reg!(Signature, "Signature");
    reg!(BlindedSignature, "BlindedSignature");
    reg!(BlindedMessage, "BlindedMessage");
    reg!(BlindingFactor, "BlindingFactor");
    reg!(RangeConstraint, "RangeConstraint");
    reg!(RangeConstraintParameters, "RangeConstraintParameters");
    macro_rules! per_n_lib {
        ($n:literal) => {
            reg!(PedersenParameters<G1Projective, $n>, format!("PedersenParameters<G1,{}>", $n));
            reg!(PedersenParameters<G2Projective, $n>, format!("PedersenParameters<G2,{}>", $n));
            reg!(KeyPair<$n>, format!("KeyPair<{}>", $n));
            reg!(PublicKey<$n>, format!("PublicKey<{}>", $n));
            reg!(CommitmentProof<G1Projective, $n>, format!("CommitmentProof<G1,{}>", $n));
            reg!(CommitmentProof<G2Projective, $n>, format!("CommitmentProof<G2,{}>", $n));
            reg!(SignatureProof<$n>, format!("SignatureProof<{}>", $n));
            reg!(SignatureRequestProof<$n>, format!("SignatureRequestProof<{}>", $n));
        };
    }
    for_ns!(per_n_lib);
    // --- zkabacus-crypto
    reg!(za::customer::Config, "customer::Config");
    reg!(za::customer::Requested, "customer::Requested");
    reg!(za::customer::Inactive, "customer::Inactive");
    reg!(za::customer::Ready, "customer::Ready");
    reg!(za::customer::Started, "customer::Started");
    reg!(za::customer::Locked, "customer::Locked");
    reg!(za::customer::ClosingMessage, "customer::ClosingMessage");
    reg!(za::EstablishProof, "EstablishProof");
    reg!(za::PayProof, "PayProof");
    reg!(za::Nonce, "Nonce");
    reg!(za::PayToken, "PayToken(blinded)");
    reg!(za::ClosingSignature, "ClosingSignature(blinded)");
    reg!(za::ChannelId, "ChannelId");
    reg!(za::CloseState, "CloseState");
    reg!(za::CloseStateSignature, "CloseStateSignature");
    reg!(za::CustomerBalance, "CustomerBalance");
    reg!(za::MerchantBalance, "MerchantBalance");
    reg!(za::CustomerRandomness, "CustomerRandomness");
    reg!(za::MerchantRandomness, "MerchantRandomness");
    reg!(za::PaymentAmount, "PaymentAmount");
    reg!(za::Error, "Error");
    reg!(za::revlock::RevocationPair, "RevocationPair");
    reg!(za::revlock::RevocationLock, "RevocationLock");
    reg!(za::revlock::RevocationSecret, "RevocationSecret");
    reg!(za::revlock::RevocationLockCommitment, "RevocationLockCommitment");
    reg!(za::revlock::RevocationLockBlindingFactor, "RevocationLockBlindingFactor");
    Registry { types: t }
}
