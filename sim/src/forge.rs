//! Byzantine customer: a raw Schnorr prover that assembles `EstablishProof` / `PayProof` bytes
//! field by field (by atom *path* into the layout of an honest proof, so that field
//! re-ordering in the library does not matter), never computes the challenge itself, and
//! learns the verifier's challenge through the challenge-recorder hook
//! (probe -> adapt -> resubmit).

use crate::atoms::{self, Trace};
use crate::mctx::MerchantCtx;
use crate::refc::{self, Raw1, Raw2};
use crate::rng::{Sched, SimRng};
use bls12_381::{G1Projective, G2Projective, Scalar};
use ff::Field;
use zkabacus_crypto as za;
use zkchannels_crypto::proofs::verif_hooks;

// ------------------------------------------------------------------ hook access

/// Run a verifier call with challenge recording on; returns its result and the last challenge
/// the verifier derived (as a scalar), if any.
pub fn with_recording<T>(f: impl FnOnce() -> T) -> (T, Option<Scalar>, usize) {
    let _ = verif_hooks::drain();
    verif_hooks::set_recording(true);
    let r = f();
    verif_hooks::set_recording(false);
    let log = verif_hooks::drain();
    let n = log.len();
    let c = log.last().map(|(_, c)| refc::sc(c));
    (r, c, n)
}

pub struct Agreed {
    pub cid: za::ChannelId,
    pub cust: u64,
    pub merch: u64,
    pub ctx_bytes: Vec<u8>,
}

impl Agreed {
    pub fn ctx(&self) -> za::Context {
        za::Context::new(&self.ctx_bytes)
    }
    pub fn id_scalar(&self) -> Scalar {
        refc::sc_raw(&self.cid.to_bytes())
    }
}

pub struct InitResult {
    pub accepted: Option<(Vec<u8>, za::VerifiedBlindedState)>,
    pub challenge: Option<Scalar>,
    pub decoded: bool,
}

/// Present establish-proof bytes to the real merchant under the agreed values.
pub fn present_establish(m: &'static MerchantCtx, ag: &Agreed, bytes: &[u8], rng_label: &str, seed: u64) -> InitResult {
    let proof: za::EstablishProof = match bincode::deserialize(bytes) {
        Ok(p) => p,
        Err(_) => return InitResult { accepted: None, challenge: None, decoded: false },
    };
    let cb = za::CustomerBalance::try_new(ag.cust).unwrap_or_else(|_| crate::harness_error("agreed customer balance out of range"));
    let mb = za::MerchantBalance::try_new(ag.merch).unwrap_or_else(|_| crate::harness_error("agreed merchant balance out of range"));
    let mut rng = SimRng::new(seed, rng_label);
    let (r, c, _) = with_recording(|| m.cfg.initialize(&mut rng, &ag.cid, cb, mb, proof, &ag.ctx()));
    InitResult {
        accepted: r.map(|(cs, vbs)| (atoms::encode(&cs), vbs)),
        challenge: c,
        decoded: true,
    }
}

// ------------------------------------------------------------------ establish drafts

/// Everything a prover chooses in its first move of an establish proof, plus the four revealed
/// commitment scalars.
#[derive(Clone)]
pub struct EstDraft {
    /// revealed: channel id, close tag, customer balance, merchant balance
    pub cs: [Scalar; 4],
    pub st: Raw1,
    pub cl: Raw1,
}

pub const EST_REVEALED: [&str; 4] = [
    "channel_id_commitment_scalar",
    "close_tag_commitment_scalar",
    "customer_balance_commitment_scalar",
    "merchant_balance_commitment_scalar",
];

pub fn pk_gens(m: &MerchantCtx) -> (G1Projective, Vec<G1Projective>) {
    (m.pk.g1, m.pk.y1s.clone())
}

/// An honest layout to fill in: the library's own proof for the agreed values.
pub fn est_template(m: &'static MerchantCtx, ag: &Agreed, seed: u64) -> Trace {
    let mut rng = SimRng::new(seed, "forge/est-template");
    let cb = za::CustomerBalance::try_new(ag.cust).unwrap();
    let mb = za::MerchantBalance::try_new(ag.merch).unwrap();
    let (_req, proof) = za::customer::Requested::new(&mut rng, &m.ccfg, ag.cid, mb, cb, &ag.ctx());
    atoms::trace(&proof)
}

fn put_commitment_proof_g1(t: &mut Trace, prefix: &str, raw: &Raw1, t_override: Option<G1Projective>, c_override: Option<G1Projective>, resp: Option<(Scalar, Vec<Scalar>)>) {
    let c = c_override.unwrap_or(raw.c);
    let tt = t_override.unwrap_or(raw.t);
    t.set(&format!("{}.commitment", prefix), &refc::g1b(&c));
    t.set(&format!("{}.scalar_commitment", prefix), &refc::g1b(&tt));
    let (zbf, z) = resp.unwrap_or((Scalar::zero(), vec![Scalar::zero(); raw.m.len()]));
    t.set(&format!("{}.blinding_factor_response_scalar", prefix), &refc::scb(&zbf));
    for (i, zi) in z.iter().enumerate() {
        t.set(&format!("{}.message_response_scalars[{}]", prefix, i), &refc::scb(zi));
    }
}

pub struct EstOverrides {
    pub st_c: Option<G1Projective>,
    pub st_t: Option<G1Projective>,
    pub cl_c: Option<G1Projective>,
    pub cl_t: Option<G1Projective>,
    pub st_resp: Option<(Scalar, Vec<Scalar>)>,
    pub cl_resp: Option<(Scalar, Vec<Scalar>)>,
}
impl Default for EstOverrides {
    fn default() -> Self {
        EstOverrides { st_c: None, st_t: None, cl_c: None, cl_t: None, st_resp: None, cl_resp: None }
    }
}

/// Assemble establish-proof bytes. `challenge == None` gives the draft (zero responses).
pub fn assemble_est(template: &Trace, d: &EstDraft, challenge: Option<&Scalar>, ov: &EstOverrides) -> Vec<u8> {
    let mut t = template.clone();
    for (k, name) in EST_REVEALED.iter().enumerate() {
        t.set(name, &refc::scb(&d.cs[k]));
    }
    let st_resp = match (&ov.st_resp, challenge) {
        (Some(r), _) => Some(r.clone()),
        (None, Some(c)) => Some(d.st.respond(c)),
        (None, None) => None,
    };
    let cl_resp = match (&ov.cl_resp, challenge) {
        (Some(r), _) => Some(r.clone()),
        (None, Some(c)) => Some(d.cl.respond(c)),
        (None, None) => None,
    };
    put_commitment_proof_g1(&mut t, "state_proof.commitment_proof", &d.st, ov.st_t, ov.st_c, st_resp);
    put_commitment_proof_g1(&mut t, "close_state_proof.commitment_proof", &d.cl, ov.cl_t, ov.cl_c, cl_resp);
    t.bytes
}

/// A hidden (state, close state) message pair.
#[derive(Clone, Debug)]
pub struct Hidden {
    pub st: [Scalar; 5],
    pub cl: [Scalar; 5],
}

impl Hidden {
    pub fn honest(ag: &Agreed, nonce: Scalar, lock: Scalar) -> Hidden {
        let id = ag.id_scalar();
        let cb = Scalar::from(ag.cust);
        let mb = Scalar::from(ag.merch);
        Hidden { st: [id, nonce, lock, cb, mb], cl: [id, refc::close_tag(), lock, cb, mb] }
    }
    /// Does the pair satisfy the establish statement for the agreed values?
    pub fn is_true_for(&self, ag: &Agreed) -> bool {
        let id = ag.id_scalar();
        let cb = Scalar::from(ag.cust);
        let mb = Scalar::from(ag.merch);
        self.st[0] == id
            && self.cl[0] == id
            && self.cl[1] == refc::close_tag()
            && self.st[2] == self.cl[2]
            && self.st[3] == cb
            && self.cl[3] == cb
            && self.st[4] == mb
            && self.cl[4] == mb
    }
}

/// Draft with the honest linking of commitment scalars (close state shares slots 0, 2, 3, 4 with
/// the state; revealed scalars are those of the close-state proof), over arbitrary hidden messages.
pub fn est_draft_linked(m: &MerchantCtx, h: &Hidden, s: &mut Sched) -> EstDraft {
    let (g, ys) = pk_gens(m);
    let ss: Vec<Scalar> = (0..5).map(|_| refc::rand_scalar(s)).collect();
    let mut sc = ss.clone();
    sc[1] = refc::rand_scalar(s);
    let st = Raw1::new(g, ys.clone(), h.st.to_vec(), refc::rand_scalar(s), refc::rand_scalar(s), ss);
    let cl = Raw1::new(g, ys, h.cl.to_vec(), refc::rand_scalar(s), refc::rand_scalar(s), sc.clone());
    EstDraft { cs: [sc[0], sc[1], sc[3], sc[4]], st, cl }
}

/// A revocation lock that is a real hash lock, with its secret and index.
pub fn hash_lock(s: &mut Sched) -> (Scalar, [u8; 32], u8) {
    let secret = refc::scb(&refc::rand_scalar(s));
    let mut index = 0u8;
    loop {
        if let Some(l) = refc::rev_lock(&secret, index) {
            return (l, secret, index);
        }
        index = index.wrapping_add(1);
    }
}

/// Unblind a blinded signature (96 bytes) with `bf` and check it on `msg` under the merchant key.
pub fn unblinds_to_signature_on(m: &MerchantCtx, blinded: &[u8], bf: &Scalar, msg: &[Scalar]) -> bool {
    let sig = refc::sig_from_bytes(blinded);
    let u = refc::unblind(&sig, bf);
    refc::ps_verify(&m.pk, msg, &u.0, &u.1)
}

pub fn fresh_agreed(m: &'static MerchantCtx, s: &mut Sched, cust: u64, merch: u64, tag: &str) -> Agreed {
    let mut rb = [0u8; 32];
    rb.copy_from_slice(&s.bytes(32));
    // channel id through the real derivation, with scheduler-chosen randomness contributions
    let mr: za::MerchantRandomness = bincode::deserialize(&rb).unwrap_or_else(|_| crate::harness_error("MerchantRandomness decode"));
    rb.copy_from_slice(&s.bytes(32));
    let cr: za::CustomerRandomness = bincode::deserialize(&rb).unwrap_or_else(|_| crate::harness_error("CustomerRandomness decode"));
    let cid = za::ChannelId::new(mr, cr, m.cfg.signing_keypair().public_key(), b"forger-merchant", b"forger-customer");
    Agreed { cid, cust, merch, ctx_bytes: format!("forger-session/{}/{}", tag, s.u64()).into_bytes() }
}

// ------------------------------------------------------------------ pay drafts

pub struct DigitRaw {
    pub digit: u64,
    pub raw: Raw2,
    /// blinded and re-randomised digit signature
    pub sig: (G1Projective, G1Projective),
}

pub struct RangeRawProof {
    pub digits: Vec<DigitRaw>,
}

impl RangeRawProof {
    /// Σ 128^j s_j
    pub fn commitment_scalar(&self) -> Scalar {
        let mut acc = Scalar::zero();
        let mut pow = Scalar::one();
        for d in &self.digits {
            acc += pow * d.raw.s[0];
            pow *= Scalar::from(128u64);
        }
        acc
    }
}

/// Nine digit proofs for `digits` (least significant first); `claimed[j]` is the message the
/// j-th proof commits to (normally the digit itself), `sig_of[j]` the digit whose published
/// signature is used.
pub fn range_raw(m: &MerchantCtx, digits_msg: &[u64], sig_of: &[u64], s: &mut Sched) -> RangeRawProof {
    let pk = &m.range.pk;
    let mut out = Vec::new();
    for j in 0..digits_msg.len() {
        let bf = refc::rand_scalar(s);
        let raw = Raw2::new(pk.g2, vec![pk.y2s[0]], vec![Scalar::from(digits_msg[j])], bf, refc::rand_scalar(s), vec![refc::rand_scalar(s)]);
        let r = refc::rand_nonzero(s);
        let sig = refc::blind_and_randomize(&m.range.sigs[(sig_of[j] % 128) as usize], &bf, &r);
        out.push(DigitRaw { digit: digits_msg[j], raw, sig });
    }
    RangeRawProof { digits: out }
}

/// Number of digit proofs the wire format of a range constraint holds (read from a
/// library-produced pay proof, so that it follows the library).
pub fn digit_count(template: &Trace) -> usize {
    let mut n = 0;
    while template.find(&format!("customer_balance_proof.digit_proofs[{}].blinded_signature.sigma1", n)).is_some() {
        n += 1;
    }
    if n == 0 {
        crate::harness_error("forge: no digit proofs in the pay-proof template");
    }
    n
}

pub fn digits_of(v: u128, l: usize) -> Vec<u64> {
    let mut d = vec![0u64; l];
    let mut x = v;
    for j in 0..l {
        d[j] = (x % 128) as u64;
        x /= 128;
    }
    d
}

/// All first-move material of a pay proof.
pub struct PayDraft {
    /// revealed: old nonce, close tag
    pub cs: [Scalar; 2],
    pub token_sig: (G1Projective, G1Projective),
    pub token: Raw2,
    pub revlock: Raw1,
    pub st: Raw1,
    pub cl: Raw1,
    pub cust_range: RangeRawProof,
    pub merch_range: RangeRawProof,
}

/// What the prover hides in a pay proof.
#[derive(Clone, Debug)]
pub struct PayHidden {
    pub old: [Scalar; 5],
    pub new_st: [Scalar; 5],
    pub new_cl: [Scalar; 5],
    pub old_lock_committed: Scalar,
    /// values the range proofs decompose (normally the new balances)
    pub cust_range_value: u128,
    pub merch_range_value: u128,
    /// digit proofs per range constraint
    pub digits: usize,
}

pub struct PayKnobs {
    /// digit -> which published signature to use / which message to claim (None = honest)
    pub cust_sig_of: Option<Vec<u64>>,
    pub cust_digits_msg: Option<Vec<u64>>,
    /// break one linking of commitment scalars: name of the link to leave independent
    pub unlink: Option<&'static str>,
    /// replace the customer's digit proof 0 by a proof over an arbitrary "digit" scalar with a
    /// signature the prover supplies (e.g. one fabricated from published signatures)
    pub cust_digit0: Option<(Scalar, (G1Projective, G1Projective))>,
}
impl Default for PayKnobs {
    fn default() -> Self {
        PayKnobs { cust_sig_of: None, cust_digits_msg: None, unlink: None, cust_digit0: None }
    }
}

pub fn pay_draft(m: &MerchantCtx, h: &PayHidden, token: &(G1Projective, G1Projective), knobs: &PayKnobs, s: &mut Sched) -> PayDraft {
    let cd = knobs.cust_digits_msg.clone().unwrap_or_else(|| digits_of(h.cust_range_value, h.digits));
    let cs_of = knobs.cust_sig_of.clone().unwrap_or_else(|| cd.clone());
    let md = digits_of(h.merch_range_value, h.digits);
    let mut cust_range = range_raw(m, &cd, &cs_of, s);
    if let Some((d, sig)) = &knobs.cust_digit0 {
        let pk = &m.range.pk;
        let bf = refc::rand_scalar(s);
        let raw = Raw2::new(pk.g2, vec![pk.y2s[0]], vec![*d], bf, refc::rand_scalar(s), vec![refc::rand_scalar(s)]);
        let r = refc::rand_nonzero(s);
        cust_range.digits[0] = DigitRaw { digit: 0, raw, sig: refc::blind_and_randomize(sig, &bf, &r) };
    }
    let merch_range = range_raw(m, &md, &md, s);
    let mut s_cb = cust_range.commitment_scalar();
    let s_mb = merch_range.commitment_scalar();
    if knobs.unlink == Some("range-customer") {
        s_cb = refc::rand_scalar(s);
    }
    // old revocation lock
    let s_rl = refc::rand_scalar(s);
    let revlock = Raw1::new(m.rev_h, vec![m.rev_g], vec![h.old_lock_committed], refc::rand_scalar(s), refc::rand_scalar(s), vec![s_rl]);
    // pay token (signature proof in G2)
    let s_id = refc::rand_scalar(s);
    let s_n = refc::rand_scalar(s);
    let s_rl_tok = if knobs.unlink == Some("old-lock") { refc::rand_scalar(s) } else { s_rl };
    let tok_bf = refc::rand_scalar(s);
    let token_raw = Raw2::new(m.pk.g2, m.pk.y2s.clone(), h.old.to_vec(), tok_bf, refc::rand_scalar(s), vec![s_id, s_n, s_rl_tok, s_cb, s_mb]);
    let r = refc::rand_nonzero(s);
    let token_sig = refc::blind_and_randomize(token, &tok_bf, &r);
    // new state and close state
    let s_lk = refc::rand_scalar(s);
    let s_id_st = if knobs.unlink == Some("id-state") { refc::rand_scalar(s) } else { s_id };
    let st = Raw1::new(m.pk.g1, m.pk.y1s.clone(), h.new_st.to_vec(), refc::rand_scalar(s), refc::rand_scalar(s), vec![s_id_st, refc::rand_scalar(s), s_lk, s_cb, s_mb]);
    let s_tag = refc::rand_scalar(s);
    let s_lk_cl = if knobs.unlink == Some("new-lock") { refc::rand_scalar(s) } else { s_lk };
    let s_cb_cl = if knobs.unlink == Some("close-customer") { refc::rand_scalar(s) } else { s_cb };
    let s_mb_cl = if knobs.unlink == Some("close-merchant") { refc::rand_scalar(s) } else { s_mb };
    let s_id_cl = if knobs.unlink == Some("id-close") { refc::rand_scalar(s) } else { s_id };
    let cl = Raw1::new(m.pk.g1, m.pk.y1s.clone(), h.new_cl.to_vec(), refc::rand_scalar(s), refc::rand_scalar(s), vec![s_id_cl, s_tag, s_lk_cl, s_cb_cl, s_mb_cl]);
    PayDraft { cs: [s_n, s_tag], token_sig, token: token_raw, revlock, st, cl, cust_range, merch_range }
}

/// Per-field overrides applied when assembling (element paths relative to the proof root).
#[derive(Default)]
pub struct PayOverrides {
    pub g1: Vec<(String, G1Projective)>,
    pub g2: Vec<(String, G2Projective)>,
    pub sc: Vec<(String, Scalar)>,
}

fn put_g2_proof(t: &mut Trace, prefix: &str, raw: &Raw2, resp: Option<&(Scalar, Vec<Scalar>)>) {
    t.set(&format!("{}.commitment", prefix), &refc::g2b(&raw.c));
    t.set(&format!("{}.scalar_commitment", prefix), &refc::g2b(&raw.t));
    let zero = (Scalar::zero(), vec![Scalar::zero(); raw.m.len()]);
    let (zbf, z) = resp.unwrap_or(&zero);
    t.set(&format!("{}.blinding_factor_response_scalar", prefix), &refc::scb(zbf));
    for (i, zi) in z.iter().enumerate() {
        t.set(&format!("{}.message_response_scalars[{}]", prefix, i), &refc::scb(zi));
    }
}

pub fn assemble_pay(template: &Trace, d: &PayDraft, challenge: Option<&Scalar>, ov: &PayOverrides) -> Vec<u8> {
    let mut t = template.clone();
    t.set("old_nonce_commitment_scalar", &refc::scb(&d.cs[0]));
    t.set("close_tag_commitment_scalar", &refc::scb(&d.cs[1]));
    t.set("old_pay_token_proof.blinded_signature.sigma1", &refc::g1b(&d.token_sig.0));
    t.set("old_pay_token_proof.blinded_signature.sigma2", &refc::g1b(&d.token_sig.1));
    let r = challenge.map(|c| d.token.respond(c));
    put_g2_proof(&mut t, "old_pay_token_proof.commitment_proof", &d.token, r.as_ref());
    let r = challenge.map(|c| d.revlock.respond(c));
    put_commitment_proof_g1(&mut t, "old_revocation_lock_proof", &d.revlock, None, None, r);
    let r = challenge.map(|c| d.st.respond(c));
    put_commitment_proof_g1(&mut t, "state_proof.commitment_proof", &d.st, None, None, r);
    let r = challenge.map(|c| d.cl.respond(c));
    put_commitment_proof_g1(&mut t, "close_state_proof.commitment_proof", &d.cl, None, None, r);
    for (name, rp) in [("customer_balance_proof", &d.cust_range), ("merchant_balance_proof", &d.merch_range)] {
        for (j, dg) in rp.digits.iter().enumerate() {
            let p = format!("{}.digit_proofs[{}]", name, j);
            t.set(&format!("{}.blinded_signature.sigma1", p), &refc::g1b(&dg.sig.0));
            t.set(&format!("{}.blinded_signature.sigma2", p), &refc::g1b(&dg.sig.1));
            let r = challenge.map(|c| dg.raw.respond(c));
            put_g2_proof(&mut t, &format!("{}.commitment_proof", p), &dg.raw, r.as_ref());
        }
    }
    for (p, v) in &ov.g1 {
        t.set(p, &refc::g1b(v));
    }
    for (p, v) in &ov.g2 {
        t.set(p, &refc::g2b(v));
    }
    for (p, v) in &ov.sc {
        t.set(p, &refc::scb(v));
    }
    t.bytes
}

pub struct PayResult {
    pub accepted: Option<(za::merchant::Unrevoked<'static>, Vec<u8>)>,
    pub challenge: Option<Scalar>,
    pub decoded: bool,
    pub panicked: Option<String>,
}

pub fn present_pay(m: &'static MerchantCtx, amount_wire: i64, nonce_bytes: &[u8], ctx_bytes: &[u8], proof_bytes: &[u8], seed: u64, label: &str) -> PayResult {
    let proof: za::PayProof = match bincode::deserialize(proof_bytes) {
        Ok(p) => p,
        Err(_) => return PayResult { accepted: None, challenge: None, decoded: false, panicked: None },
    };
    let nonce: za::Nonce = match bincode::deserialize(nonce_bytes) {
        Ok(n) => n,
        Err(_) => return PayResult { accepted: None, challenge: None, decoded: false, panicked: None },
    };
    // the amount arrives as wire bytes (a Byzantine sender controls them)
    let amount: za::PaymentAmount = match bincode::deserialize(&amount_wire.to_le_bytes()) {
        Ok(a) => a,
        Err(_) => return PayResult { accepted: None, challenge: None, decoded: false, panicked: None },
    };
    let ctx = za::Context::new(ctx_bytes);
    let mut rng = SimRng::new(seed, label);
    let r = std::panic::catch_unwind(std::panic::AssertUnwindSafe(|| with_recording(|| m.cfg.allow_payment(&mut rng, amount, &nonce, proof, &ctx))));
    match r {
        Ok((r, c, _)) => PayResult { accepted: r.map(|(u, cs)| (u, atoms::encode(&cs))), challenge: c, decoded: true, panicked: None },
        Err(_) => {
            verif_hooks::set_recording(false);
            let (loc, msg) = crate::driver::take_panic();
            PayResult { accepted: None, challenge: None, decoded: true, panicked: Some(format!("{}|{}", crate::driver::normalise_loc(&loc), msg)) }
        }
    }
}

/// The raw customer: knows every scalar of its state because it built everything itself.
pub struct RawCustomer {
    pub m: &'static MerchantCtx,
    pub id: Scalar,
    pub cid: za::ChannelId,
    pub cust: u64,
    pub merch: u64,
    pub state: [Scalar; 5],
    pub lock_secret: [u8; 32],
    pub lock_index: u8,
    /// unblinded pay token on `state`
    pub token: (G1Projective, G1Projective),
    /// unblinded closing signature on the close state of `state`
    pub close_sig: (G1Projective, G1Projective),
}

pub fn honest_pay_hidden(rc: &RawCustomer, amount: i64, s: &mut Sched) -> (PayHidden, (Scalar, [u8; 32], u8), Scalar) {
    let nc = (rc.cust as i128 - amount as i128) as u64;
    let nm = (rc.merch as i128 + amount as i128) as u64;
    let (lock, secret, index) = hash_lock(s);
    let nonce = refc::rand_scalar(s);
    let h = PayHidden {
        old: rc.state,
        new_st: [rc.id, nonce, lock, Scalar::from(nc), Scalar::from(nm)],
        new_cl: [rc.id, refc::close_tag(), lock, Scalar::from(nc), Scalar::from(nm)],
        old_lock_committed: rc.state[2],
        cust_range_value: nc as u128,
        merch_range_value: nm as u128,
        digits: 9,
    };
    (h, (lock, secret, index), nonce)
}

/// Library-produced pay proof used only as a byte layout to fill in.
pub fn pay_template(seed: u64, mspec: &str) -> Trace {
    let h = crate::harvest::cached(seed, 0, mspec);
    match h.iter().find(|s| s.ty == "PayProof") {
        Some(s) => s.trace.clone(),
        None => crate::harness_error("no PayProof in harvest"),
    }
}
