//! Wire / storage faults expressed on atoms of a traced encoding.

use crate::atoms::{AtomKind, Trace};
use crate::refc::bad;
use crate::rng::Sched;
use serde_json::{json, Value};

/// Apply a mutation spec to an encoding. Returns the mutated byte string.
pub fn apply(t: &Trace, m: &Value) -> Vec<u8> {
    let k = m["k"].as_str().unwrap_or("none");
    let mut b = t.bytes.clone();
    match k {
        "none" => {}
        "seqlen" => {
            let i = m["atom"].as_u64().unwrap() as usize;
            let a = &t.atoms[i];
            if a.kind != AtomKind::SeqLen {
                crate::harness_error("seqlen mutation on a non-length atom");
            }
            let mut nb = [0u8; 8];
            nb.copy_from_slice(&t.bytes[a.off..a.off + 8]);
            let n = u64::from_le_bytes(nb);
            let to: u64 = match m["to"].as_str().unwrap_or("") {
                "0" => 0,
                "n-1" => n.wrapping_sub(1),
                "n+1" => n.wrapping_add(1),
                "2n" => n.wrapping_mul(2),
                "2^16" => 1 << 16,
                "2^32" => 1 << 32,
                "2^40" => 1 << 40,
                "2^60" => 1 << 60,
                "2^64-1" => u64::MAX,
                _ => crate::harness_error("bad seqlen target"),
            };
            b[a.off..a.off + 8].copy_from_slice(&to.to_le_bytes());
            if m["trail"].as_bool().unwrap_or(false) {
                // duplicate the last element of the sequence right after it, so that a decoder
                // that believes the longer prefix finds a well-formed extra element.
                let prefix = a.path.trim_end_matches("#len").trim_end_matches('.').to_string();
                let last_tag = format!("{}[{}]", prefix, n.wrapping_sub(1));
                let idxs: Vec<usize> = (0..t.atoms.len())
                    .filter(|&j| t.atoms[j].path.starts_with(&last_tag) && j > i)
                    .collect();
                if let (Some(&first), Some(&last)) = (idxs.first(), idxs.last()) {
                    let s = t.atoms[first].off;
                    let e = t.atoms[last].off + t.atoms[last].len;
                    let elem = t.bytes[s..e].to_vec();
                    let extra = if to > n { (to - n).min(4) as usize } else { 1 };
                    let mut ins = Vec::new();
                    for _ in 0..extra {
                        ins.extend_from_slice(&elem);
                    }
                    let tail = b.split_off(e);
                    b.extend_from_slice(&ins);
                    b.extend_from_slice(&tail);
                }
            }
        }
        "tag" => {
            let i = m["atom"].as_u64().unwrap() as usize;
            let a = &t.atoms[i];
            let to = m["to"].as_u64().unwrap();
            match a.len {
                4 => b[a.off..a.off + 4].copy_from_slice(&(to as u32).to_le_bytes()),
                1 => b[a.off] = to as u8,
                _ => crate::harness_error("tag mutation on an atom that is not 1 or 4 bytes"),
            }
        }
        "atom" => {
            let i = m["atom"].as_u64().unwrap() as usize;
            let a = &t.atoms[i];
            let sub = substitute(a.len, m["sub"].as_str().unwrap_or(""), m["r"].as_u64().unwrap_or(0), &t.bytes[a.off..a.off + a.len]);
            b[a.off..a.off + a.len].copy_from_slice(&sub);
        }
        "allatoms" => {
            // every byte-string atom of one length gets the same kind of substitute at once
            let len = m["len"].as_u64().unwrap() as usize;
            let sub = m["sub"].as_str().unwrap_or("");
            for (i, a) in t.atoms.iter().enumerate() {
                if a.kind == AtomKind::Bytes && a.len == len {
                    let sb = substitute(a.len, sub, m["r"].as_u64().unwrap_or(0).wrapping_add(i as u64), &t.bytes[a.off..a.off + a.len]);
                    b[a.off..a.off + a.len].copy_from_slice(&sb);
                }
            }
        }
        "atoms" => {
            // the listed atoms each get the named substitute (same kind for all)
            let sub = m["sub"].as_str().unwrap_or("");
            for (k, i) in m["atoms"].as_array().cloned().unwrap_or_default().iter().enumerate() {
                let i = i.as_u64().unwrap_or(0) as usize;
                if i >= t.atoms.len() {
                    continue;
                }
                let a = &t.atoms[i];
                // a substitute that does not exist for this kind of atom falls back to zero bytes
                let sub = if substitutes_for(a.kind, a.len).contains(&sub) || ["zero", "ones", "random"].contains(&sub) { sub } else { "zero" };
                let sb = substitute(a.len, sub, m["r"].as_u64().unwrap_or(0).wrapping_add(k as u64), &t.bytes[a.off..a.off + a.len]);
                if sb.len() == a.len {
                    b[a.off..a.off + a.len].copy_from_slice(&sb);
                }
            }
        }
        "trunc" => {
            let at = m["at"].as_u64().unwrap() as usize;
            b.truncate(at.min(b.len()));
        }
        "extend" => {
            let n = m["n"].as_u64().unwrap() as usize;
            let mut s = Sched::new(m["r"].as_u64().unwrap_or(0), "mutate/extend");
            b.extend_from_slice(&s.bytes(n));
        }
        "random" => {
            let n = m["len"].as_u64().unwrap() as usize;
            let mut s = Sched::new(m["r"].as_u64().unwrap_or(0), "mutate/random");
            b = s.bytes(n);
        }
        "flip" => {
            let at = m["at"].as_u64().unwrap() as usize;
            let bit = m["bit"].as_u64().unwrap() as u8;
            if at < b.len() {
                b[at] ^= 1 << (bit % 8);
            }
        }
        _ => crate::harness_error("unknown mutation kind"),
    }
    b
}

/// Replacement bytes of a given length for a named substitute.
pub fn substitute(len: usize, sub: &str, r: u64, orig: &[u8]) -> Vec<u8> {
    let mut s = Sched::new(r, "mutate/substitute");
    match (len, sub) {
        (_, "random") => s.bytes(len),
        (_, "zero") => vec![0u8; len],
        (_, "ones") => vec![0xffu8; len],
        (48, "identity") => bad::g1_identity().to_vec(),
        (48, "offcurve") => bad::g1_off_curve().to_vec(),
        (48, "nonsub") => bad::g1_non_subgroup().to_vec(),
        (48, "inf-flag") | (96, "inf-flag") => {
            // the honest point with the "infinity" flag bit set (not a canonical encoding of anything)
            let mut b = orig.to_vec();
            b[0] |= 0x40;
            b
        }
        (48, "inf-junk") | (96, "inf-junk") => {
            // infinity flag with a non-zero body
            let mut b = vec![0u8; len];
            b[0] = 0xc0;
            b[len - 1] = 1;
            b
        }
        (48, "inf-sign") | (96, "inf-sign") => {
            // infinity with the sign bit also set
            let mut b = vec![0u8; len];
            b[0] = 0xe0;
            b
        }
        (48, "no-compression-flag") | (96, "no-compression-flag") => {
            let mut b = orig.to_vec();
            b[0] &= 0x7f;
            b
        }
        (48, "low-order-shift") => {
            // the honest point plus a point of order 3: on the curve, outside the subgroup, and
            // "almost" inside it (a randomised or batched membership test lets it through with
            // probability 1/3)
            let mut b = [0u8; 48];
            b.copy_from_slice(orig);
            let p: Option<bls12_381::G1Affine> = bls12_381::G1Affine::from_compressed(&b).into();
            match p {
                Some(p) => bls12_381::G1Affine::from(bls12_381::G1Projective::from(p) + bad::g1_torsion3()).to_compressed().to_vec(),
                None => orig.to_vec(),
            }
        }
        (96, "low-order-shift") => {
            let mut b = [0u8; 96];
            b.copy_from_slice(orig);
            let p: Option<bls12_381::G2Affine> = bls12_381::G2Affine::from_compressed(&b).into();
            match p {
                Some(p) => bls12_381::G2Affine::from(bls12_381::G2Projective::from(p) + bad::g2_torsion13()).to_compressed().to_vec(),
                None => orig.to_vec(),
            }
        }
        (48, "other") => crate::refc::g1b(&crate::refc::rand_g1(&mut s)).to_vec(),
        (48, "neg") => {
            // the inverse of the same point (same x-coordinate, other sign bit); identity stays
            let mut b = [0u8; 48];
            b.copy_from_slice(orig);
            let p: Option<bls12_381::G1Affine> = bls12_381::G1Affine::from_compressed(&b).into();
            match p {
                Some(p) => (-p).to_compressed().to_vec(),
                None => orig.to_vec(),
            }
        }
        (96, "neg") => {
            let mut b = [0u8; 96];
            b.copy_from_slice(orig);
            let p: Option<bls12_381::G2Affine> = bls12_381::G2Affine::from_compressed(&b).into();
            match p {
                Some(p) => (-p).to_compressed().to_vec(),
                None => orig.to_vec(),
            }
        }
        (32, "neg") => {
            match crate::refc::sc_opt(orig) {
                Some(x) => crate::refc::scb(&(-x)).to_vec(),
                None => orig.to_vec(),
            }
        }
        (96, "identity") => bad::g2_identity().to_vec(),
        (96, "offcurve") => bad::g2_off_curve().to_vec(),
        (96, "nonsub") => bad::g2_non_subgroup().to_vec(),
        (96, "other") => crate::refc::g2b(&crate::refc::rand_g2(&mut s)).to_vec(),
        (32, "q") => bad::scalar_q().to_vec(),
        (32, "q+1") => bad::scalar_q_plus_1().to_vec(),
        (32, "hibit") => {
            // the same value with bit 255 set (q has 255 bits: a decoder that masks the top bit
            // would accept it)
            let mut b = orig.to_vec();
            b[31] |= 0x80;
            b
        }
        (32, "orig+q") => {
            // another encoding congruent to the original mod q (if it fits in 256 bits)
            let q = bad::scalar_q();
            let mut b = orig.to_vec();
            let mut carry = 0u16;
            for i in 0..32 {
                let v = b[i] as u16 + q[i] as u16 + carry;
                b[i] = v as u8;
                carry = v >> 8;
            }
            if carry != 0 {
                bad::scalar_q_plus_1().to_vec()
            } else {
                b
            }
        }
        (32, "closetag") => crate::refc::scb(&crate::refc::close_tag()).to_vec(),
        (32, "closetag+q") => {
            let tag = crate::refc::scb(&crate::refc::close_tag());
            let mut b = bad::scalar_q();
            let mut carry = 0u16;
            for i in 0..32 {
                let v = b[i] as u16 + tag[i] as u16 + carry;
                b[i] = v as u8;
                carry = v >> 8;
            }
            b.to_vec()
        }
        (32, "cancel-sum") => {
            // two bytes differ from the original by 0x80 each: the byte-wise XOR differences add up
            // to 0 mod 256 (a hand-rolled "constant-time" comparison that sums differences in a u8
            // calls the two values equal)
            let mut b = orig.to_vec();
            let i = s.usize(30);
            let j = (i + 1 + s.usize(29)) % 30;
            b[i] ^= 0x80;
            b[j] ^= 0x80;
            b
        }
        (32, "cancel-xor") => {
            // two bytes differ by the same pattern: the XOR of all byte differences is 0
            let mut b = orig.to_vec();
            let i = s.usize(30);
            let j = (i + 1 + s.usize(29)) % 30;
            let d = 1 + s.usize(255) as u8;
            b[i] ^= d;
            b[j] ^= d;
            b
        }
        (32, "other") => crate::refc::scb(&crate::refc::rand_scalar(&mut s)).to_vec(),
        (8, "2^63") => (1u64 << 63).to_le_bytes().to_vec(),
        (8, "2^64-1") => u64::MAX.to_le_bytes().to_vec(),
        (8, "2^63-1") => ((1u64 << 63) - 1).to_le_bytes().to_vec(),
        (8, "imin") => i64::MIN.to_le_bytes().to_vec(),
        (8, "imin+1") => (i64::MIN + 1).to_le_bytes().to_vec(),
        (1, "inc") => vec![orig[0].wrapping_add(1)],
        (1, "dec") => vec![orig[0].wrapping_sub(1)],
        (1, x) if x.starts_with("u8:") => vec![x[3..].parse::<u8>().unwrap_or(0)],
        _ => crate::harness_error(&format!("no substitute `{}` for an atom of length {}", sub, len)),
    }
}

/// The invalid / boundary substitutes that apply to an atom of the given kind and length.
pub fn substitutes_for(kind: AtomKind, len: usize) -> Vec<&'static str> {
    match (kind, len) {
        (AtomKind::Bytes, 48) => vec!["identity", "offcurve", "nonsub", "low-order-shift", "inf-flag", "inf-junk", "inf-sign", "no-compression-flag", "other", "random"],
        (AtomKind::Bytes, 96) => vec!["identity", "offcurve", "nonsub", "low-order-shift", "inf-flag", "inf-junk", "inf-sign", "no-compression-flag", "other", "random"],
        (AtomKind::Bytes, 32) => vec!["q", "q+1", "ones", "hibit", "orig+q", "closetag", "closetag+q", "zero", "other", "cancel-sum", "cancel-xor"],
        (AtomKind::U64, 8) => vec!["2^63", "2^64-1", "2^63-1", "zero"],
        (AtomKind::I64, 8) => vec!["imin", "imin+1", "2^63-1", "zero"],
        (AtomKind::U8, 1) => vec!["inc", "dec", "ones", "u8:0", "u8:1", "u8:2", "u8:127", "u8:128", "u8:253", "u8:254"],
        (AtomKind::SeqLen, 8) => vec![],
        (AtomKind::EnumTag, _) => vec![],
        (AtomKind::OptionTag, _) => vec![],
        _ => vec!["random"],
    }
}

pub fn seqlen_targets() -> Vec<&'static str> {
    vec!["0", "n-1", "n+1", "2n", "2^16", "2^32", "2^40", "2^60", "2^64-1"]
}

pub fn describe(m: &Value) -> String {
    let k = m["k"].as_str().unwrap_or("none");
    match k {
        "seqlen" => format!("seqlen->{}{}", m["to"].as_str().unwrap_or("?"), if m["trail"].as_bool().unwrap_or(false) { "+trail" } else { "" }),
        "atom" => format!("atom->{}", m["sub"].as_str().unwrap_or("?")),
        "allatoms" => format!("allatoms[{}]->{}", m["len"].as_u64().unwrap_or(0), m["sub"].as_str().unwrap_or("?")),
        "atoms" => format!("atoms{}->{}", m["atoms"], m["sub"].as_str().unwrap_or("?")),
        other => other.to_string(),
    }
}

pub fn none() -> Value {
    json!({"k": "none"})
}
